"""C14 — concurrent use is race-free and equals some sequential execution."""
import glob, os, re, sys
sys.path.insert(0, os.path.dirname(os.path.abspath(__file__)))
import vlib
import gen_c14

REPO = "/repo"
PTHREAD_CFG = ["-std=gnu11", "-D__STDC_NO_THREADS__", "-include", "pthread.h", "-D_GNU_SOURCE"]


def build_stress(ctx, kind):
    """the stress driver + the library from the working tree, in the pthread configuration, under one sanitizer"""
    out = os.path.join(ctx.scratch, "c14_stress_" + kind)
    srcs = sorted(glob.glob(os.path.join(REPO, "src", "*.c")))
    if kind == "tsan":
        cmd = ["clang-14", "-fsanitize=thread", "-g", "-O1"]
    else:
        cmd = ["gcc", "-fsanitize=address,undefined", "-fno-sanitize-recover=all", "-g", "-O1"]
    cmd += PTHREAD_CFG + ["-w", "-I" + REPO + "/include", "-I" + REPO + "/src", os.path.join(vlib.ROOT, "harness", "c14_stress.c")] + srcs + ["-lm", "-lpthread", "-o", out]
    rc, o, err = vlib.sh(cmd, timeout=900)
    if rc: raise vlib.InfraError("cannot build the stress driver (%s): %s" % (kind, err[-800:]))
    return out


def build_sched(ctx):
    out = os.path.join(ctx.scratch, "c14_sched")
    srcs = sorted(glob.glob(os.path.join(REPO, "src", "*.c")))
    cmd = ["gcc", "-O1", "-g"] + PTHREAD_CFG + ["-DLIBGPC_VERIF", "-w", "-I" + REPO + "/include", "-I" + REPO + "/src", "-I" + os.path.join(vlib.ROOT, "harness"),
           os.path.join(vlib.ROOT, "harness", "c14_sched.c")] + srcs + ["-lm", "-lpthread", "-ldl", "-o", out]
    rc, o, err = vlib.sh(cmd, timeout=900)
    if rc: raise vlib.InfraError("cannot build the cooperative scheduler harness: " + err[-800:])
    return out


def sched_cases(ctx):
    import itertools
    quick = ctx.tier == "quick"
    r = ctx.rng
    cases = []
    def all_scheds(nt, L): return ("".join(p) for p in itertools.product("0123"[:nt], repeat=L))
    arena = [([[8, 24], [16, 40]], 9 if quick else 12), ([[1], [1]], 6), ([[100, 3, 3], [7]], 8 if quick else 11), ([[0, 8], [0, 0]], 8 if quick else 10),
             ([[8], [24], [40]], 7 if quick else 9), ([[8, 8], [8], [8]], 6 if quick else 8), ([[16], [16], [16], [16]], 5 if quick else 7)]
    locale = [([[0, 1], [1, 0]], 9 if quick else 12), ([[0, 0], [0]], 8 if quick else 10), ([[0], [0], [0]], 7 if quick else 9),
              ([[0, 1], [0], [1]], 6 if quick else 8), ([[0], [0], [0], [0]], 5 if quick else 7), ([[2, 2, 2], [2, 3]], 8 if quick else 11)]
    fmt = lambda scr: "|".join(",".join(str(x) for x in t) if t else "-" for t in scr)
    for kind, sets in (("arena", arena), ("locale", locale)):
        for scr, L in sets:
            for sc in all_scheds(len(scr), L):
                cases.append(["cc sched %s %s %s" % (kind, fmt(scr), sc)])
    # random longer scripts and schedules
    for _ in range(400 if quick else 6000):
        nt = r.choice([2, 2, 3, 4]); kind = r.choice(["arena", "locale"])
        scr = [[(r.choice([0, r.randrange(1, 200), r.randrange(1, 200)]) if kind == "arena" else r.randrange(0, 5)) for _ in range(r.randrange(0, 5))] for _ in range(nt)]
        cases.append(["cc sched %s %s %s" % (kind, fmt(scr), "".join(r.choice("0123"[:nt]) for _ in range(r.randrange(0, 40))) or "-")])
    for scr in ([[0, 1], [1, 1, 0]], [[0], [0]], [[1], [0, 0]], [[0, 0, 0], [0, 0], [0]]):
        for sc in ("-", "0101", "1100", "010011", "1", "000111"):
            cases.append(["cc sched tests %s %s" % (fmt(scr), sc)])
    return cases


def sched_oracle(case, out):
    t = case[0].split(); o = out[0]
    if o.startswith("blocked-forever"): return "%s: the threads never finish under this schedule (a mutex is never released / a thread waits forever)" % case[0]
    if o.startswith("died"): return "%s: the run died (%s)" % (case[0], o)
    if t[2] == "arena":
        if "ov=1" in o: return "%s: blocks handed out by the shared arena overlap or were overwritten (%s)" % (case[0], o)
    elif t[2] == "locale":
        scr = [[int(x) % 5 for x in th.split(",")] if th != "-" else [] for th in t[3].split("|")]
        res = [[x for x in p.split(":")[1].split(",")] if not p.endswith(":-") else [] for p in o.split() if p.startswith("t")]
        seen = {}
        for ks, rs in zip(scr, res):
            for k, v in zip(ks, rs):
                if seen.setdefault(k, v) != v: return "%s: two calls for the same locale code got different objects (%s)" % (case[0], o)
        ids = {}
        for k, v in seen.items():
            if ids.setdefault(v, k) != k: return "%s: two locale codes share one object (%s)" % (case[0], o)
        m = re.search(r"created=(\d+)", o)
        if m and int(m.group(1)) != (1 if any(scr) else 0) + len(seen): return "%s: %s locale objects were created for %d codes (+1 default)" % (case[0], m.group(1), len(seen))
    elif t[2] == "tests":
        scr = [[int(x) for x in th.split(",")] if th != "-" else [] for th in t[3].split("|")]
        n = sum(len(x) for x in scr); f = any(v for x in scr for v in x)
        if o != "count=%d fail=%d" % (n, 1 if f else 0): return "%s: %d tests ran%s in the threads, the framework reports %s" % (case[0], n, " (some failing)" if f else "", o)
    return None


def tsan_reports(err):
    """-> list of (summary, excerpt) per ThreadSanitizer warning"""
    res = []
    for blk in re.split(r"(?=WARNING: ThreadSanitizer)", err):
        if not blk.startswith("WARNING: ThreadSanitizer"): continue
        kind = blk.split("\n")[0].replace("WARNING: ThreadSanitizer: ", "").split(" (pid")[0]
        frames = re.findall(r"#\d+ (\S+) (/repo/\S+?):(\d+)", blk)
        lib = [f for f in frames if "/repo/" in f[1]]
        top = ", ".join("%s (%s:%s)" % (f[0], os.path.basename(f[1]), f[2]) for f in lib[:4])
        acc = re.findall(r"^\s+((?:Previous )?(?:[Aa]tomic )?(?:[Rr]ead|[Ww]rite) of size \d+).*?by (?:thread T\d+|main thread)(?: \(mutexes: ([^)]*)\))?", blk, re.M)
        how = "; ".join("%s%s" % (a[0], (" holding " + a[1]) if a[1] else " holding no mutex") for a in acc[:2])
        res.append(("%s: %s [%s]" % (kind, how, top), blk[:1800]))
    return res


def run(ctx):
    quick = ctx.tier == "quick"
    ctx.rules.append("cooperative scheduling (library built with -DLIBGPC_VERIF): 2..4 managed threads with scripts of shared-arena "
                     "allocations / locale lookups / tests, EVERY schedule string of length 5..9 (thorough 7..12) over the thread "
                     "digits at the scheduling points (mutex entry with trylock hand-back, once, between reading and updating the "
                     "arena position, counter updates) plus random scripts and schedules to length 40; per schedule the per-thread "
                     "results must equal the Lean model run under the same schedule; oracle: blocks disjoint and intact, one object "
                     "per locale code, one creation per code, all tests counted; a case = one (scripts, schedule)")
    ctx.rules.append("T-gen: the synchronisation skeleton (lock / unlock / once / table lookups with their outcome / insertion / "
                     "allocator access / counter access, one list per control path) of gp_locale, gp_arena_shared_alloc and the test "
                     "counters is re-extracted from the preprocessed sources on every run and the discipline theorem is re-checked on "
                     "it; witness search: free-running schedules of 2, 3, 4, 8, 16 threads released by a barrier, under "
                     "ThreadSanitizer (library in its pthread configuration) and under AddressSanitizer + LeakSanitizer, separately "
                     "for the shared arena, the locale cache (8 codes, first use contended), per-thread objects + heap + scratch arena "
                     "+ scopes left open at thread exit, the test counters, and all together; cross-thread ledger of shared-arena "
                     "blocks (disjoint, contents intact), one object per locale code across threads; a case = one run")
    ctx.assumptions += ["pthread_mutex / pthread_once / thread-specific keys behave as POSIX says (the model's lock and once steps)",
                        "sequentially consistent interleaving semantics; compiler and hardware reordering inside a critical section "
                        "is covered by the mutex's acquire/release, outside of it only by the race detector",
                        "the skeleton extraction sees calls and branches, not data flow beyond the tested variable `locale`",
                        "newlocale() is thread safe (glibc)"]
    changed, info = gen_c14.write_generated()
    ctx.extra_cov["generated_skeleton_changed"] = changed
    ctx.extra_cov["skeleton"] = {k: info.get(k) for k in ("locale_paths", "shared_alloc_paths", "counter_paths", "atomic_counters", "problem")}
    ctx.build_model()
    ctx.prove()
    # cooperative schedules: the real code under every interleaving of its scheduling points, against the model
    sched = build_sched(ctx)
    if ctx.replay_cases is not None:
        cases = [c for c in ctx.replay_cases if c and c[0].startswith("cc sched ")]
    else:
        cases = vlib.load_corpus("C14") + sched_cases(ctx)
        cases = [c for c in cases if c[0].startswith("cc sched ")]
    if cases:
        ctx.correspond("schedules", sched, cases, oracle=sched_oracle, nontrivial=lambda c: True, timeout=600)
    ctx.corr_names.append("stress")
    tsan = build_stress(ctx, "tsan")
    asan = build_stress(ctx, "asan")
    if ctx.replay_cases is not None:
        runs = [tuple(int(x) for x in c[0].split()[1:]) for c in ctx.replay_cases if c and c[0].startswith("cc stress ")]
    else:
        runs = []
        seeds = [ctx.seed * 100 + i for i in range(2 if quick else 12)]
        for nt in (2, 3, 4, 8, 16):
            for mode in (1, 2, 4, 7):
                for s in seeds:
                    runs.append((nt, 40 if quick else 400, s, 0, mode))
            for s in seeds: runs.append((nt, 30 if quick else 200, s, 1, 7))
            for s in seeds[:2 if quick else 6]: runs.append((nt, 12 if quick else 45, s, 2, 7))     # failing tests with formatted texts
    seen = set()
    env_t = dict(os.environ, TSAN_OPTIONS="halt_on_error=0:report_signal_unsafe=0:history_size=4:second_deadlock_stack=1")
    env_a = dict(os.environ, ASAN_OPTIONS="detect_leaks=1:max_allocation_size_mb=512", LSAN_OPTIONS="report_objects=0")
    import concurrent.futures as cf
    import subprocess
    hung = []
    def run1(cmd, env):
        try:
            return vlib.sh(cmd, timeout=40, env=env)
        except subprocess.TimeoutExpired:
            subprocess.run(["pkill", "-x", os.path.basename(cmd[0])[:15]])
            return (-999, "", "TIMEOUT")
    def one(r):
        if len(hung) >= 3:                      # three runs that never end are enough: do not wait for fifty
            return r, (0, "ok skipped", ""), (0, "ok skipped", "")
        args = [str(x) for x in r]
        a = run1([tsan] + args, env_t)
        b = run1([asan] + args, env_a)
        if a[0] == -999 or b[0] == -999: hung.append(r)
        return r, a, b
    nbad = 0
    with cf.ThreadPoolExecutor(4) as ex:
        for r, (rc1, o1, e1), (rc2, o2, e2) in ex.map(one, runs):
            ctx.evaluations += 1
            ctx.distinct.add(r)
            line = "cc stress " + " ".join(str(x) for x in r)
            if rc1 == -999 or rc2 == -999:
                nbad += 1
                ctx.add_witness("stress", [line], ["TIMEOUT"], [], "the stress run with %d threads did not finish within 40 s (normally under 2 s): threads block each other for good" % r[0])
                continue
            for o, which in ((o1, "ThreadSanitizer build"), (o2, "AddressSanitizer build")):
                for l in o.splitlines():
                    if l.startswith("BAD"):
                        nbad += 1
                        ctx.add_witness("stress", [line], [l], [], "%s (%d threads, %s)" % (l[4:], r[0], which))
                if not any(l.startswith(("ok ", "FAILED")) for l in o.splitlines()) and which.startswith("Thread") and rc1 not in (0, 66):
                    ctx.add_witness("stress", [line], [e1[-600:]], [], "the stress run died (exit %s)" % rc1)
            if len(r) > 3 and r[3] == 2:
                # every failing expectation's formatted text reaches the report as the thread wrote it
                want = set((t, k) for t in range(1, min(r[0], 16), 2) for k in range(0, r[1], 3))
                for e, which in ((e1, "ThreadSanitizer build"), (e2, "AddressSanitizer build")):
                    got = set((int(t), int(k)) for t, k, m in re.findall(r"<<t(\d+):r(\d+):(m*)>>", e) if len(m) == 10 + (int(t) * 7 + int(k)) % 150)
                    if want - got and "Sanitizer: " not in e:
                        nbad += 1
                        t, k = sorted(want - got)[0]
                        ctx.add_witness("stress", [line], [e[-800:]], [], "the text of the failing expectation of thread %d, test %d is missing from or mixed up in the "
                                        "report (%d of %d texts intact; %s)" % (t, k, len(want & got), len(want), which))
                        break
            for summ, blk in tsan_reports(e1):
                key = re.sub(r"0x[0-9a-f]+|T\d+|size \d+", "", summ)
                if key in seen: continue
                seen.add(key); nbad += 1
                ctx.add_witness("stress", [line], [blk], [], "ThreadSanitizer, %d threads: %s" % (r[0], summ))
            if rc2 != 0 and "Sanitizer" in e2:
                m = re.search(r"(ERROR: (?:Address|Leak)Sanitizer: [^\n]*)", e2)
                what = m.group(1) if m else e2.strip()[-200:]
                fr = re.findall(r"#\d+ 0x[0-9a-f]+ in (\S+) (/repo/\S+?):(\d+)", e2)
                key = what[:60] + str(fr[:3])
                if key not in seen:
                    seen.add(key); nbad += 1
                    ctx.add_witness("stress", [line], [e2[-1500:]], [], "memory of an exited thread / shared facility, %d threads: %s [%s]" % (
                        r[0], what, ", ".join("%s (%s:%s)" % (f[0], os.path.basename(f[1]), f[2]) for f in fr[:4])))
    ctx.stats.setdefault("corr", {})["stress"] = {"cases": len(runs), "reports": nbad}
    ctx.samples.append({"corr": "stress", "case": ["cc stress " + " ".join(str(x) for x in runs[0])] if runs else [], "impl": ["ok"]})
