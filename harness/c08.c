/* C08 driver: search / comparison primitives on exact-size buffers (ASan guards both ends).
 * Each op runs the gp_bytes_* function and, where one exists, the gp_str_* wrapper; the two
 * results must agree (else the line says so) */
#include <gpc/bytes.h>
#include <gpc/string.h>
#include <gpc/memory.h>
#include "proto.h"

static void put_idx(size_t i) { if (i == GP_NOT_FOUND) fputs("nf", stdout); else printf("%zu", i); }

static GPString mkstr(const uint8_t* b, size_t n)
{
    GPString s = gp_str_new(gp_heap, n, "");
    gp_str_copy(&s, b, n);
    return s;
}

int main(void)
{
    setvbuf(stdout, NULL, _IOLBF, 0);
    while (vp_next()) {
        if (vp_ntok < 2 || strcmp(vp_tok[0], "srch") != 0) { puts("bad-op"); continue; }
        char** t = vp_tok + 1; int n = vp_ntok - 1;
        size_t hl = 0, nl = 0;
        uint8_t *h = NULL, *nd = NULL;
        if (n >= 3) { h = vp_hex(t[1], &hl); nd = vp_hex(t[2], &nl); }
        if (!strcmp(t[0], "ff") && n == 4) {
            size_t st = strtoull(t[3], NULL, 10);
            size_t r = gp_bytes_find_first(h, hl, nd, nl, st);
            GPString s = mkstr(h, hl);
            size_t r2 = gp_str_find_first(s, nd, nl, st);
            gp_str_delete(s);
            put_idx(r); if (r2 != r) { fputs(" str-variant:", stdout); put_idx(r2); } puts("");
        } else if (!strcmp(t[0], "fl") && n == 3) {
            size_t r = gp_bytes_find_last(h, hl, nd, nl);
            GPString s = mkstr(h, hl);
            size_t r2 = gp_str_find_last(s, nd, nl);
            gp_str_delete(s);
            put_idx(r); if (r2 != r) { fputs(" str-variant:", stdout); put_idx(r2); } puts("");
        } else if (!strcmp(t[0], "cnt") && n == 3) {
            size_t r = gp_bytes_count(h, hl, nd, nl);
            GPString s = mkstr(h, hl);
            size_t r2 = gp_str_count(s, nd, nl);
            gp_str_delete(s);
            printf("%zu", r); if (r2 != r) printf(" str-variant:%zu", r2); puts("");
        } else if ((!strcmp(t[0], "fo") || !strcmp(t[0], "fno")) && n == 4) {
            size_t st = strtoull(t[3], NULL, 10);
            char* set = malloc(nl + 1); memcpy(set, nd, nl); set[nl] = 0;
            size_t r = t[0][1] == 'o' ? gp_bytes_find_first_of(h, hl, set, st)
                                      : gp_bytes_find_first_not_of(h, hl, set, st);
            free(set);
            put_idx(r); puts("");
        } else if ((!strcmp(t[0], "sfo") || !strcmp(t[0], "sfno")) && n == 4) {
            /* strings: membership of whole code points (gp_str_find_first_of / _not_of) */
            size_t st = strtoull(t[3], NULL, 10);
            char* set = malloc(nl + 1); memcpy(set, nd, nl); set[nl] = 0;
            GPString s = mkstr(h, hl);
            size_t r = t[0][2] == 'o' ? gp_str_find_first_of(s, set, st) : gp_str_find_first_not_of(s, set, st);
            gp_str_delete(s); free(set);
            put_idx(r); puts("");
        } else if (!strcmp(t[0], "eq") && n == 3) {
            bool r = gp_bytes_equal(h, hl, nd, nl);
            GPString s = mkstr(h, hl);
            bool r2 = gp_str_equal(s, nd, nl);
            gp_str_delete(s);
            printf("%d", r); if (r2 != r) printf(" str-variant:%d", r2);
            /* the same two values as slices of one buffer (same start address) whenever one is a prefix of the other */
            size_t mn = hl < nl ? hl : nl; const void* big = hl < nl ? (const void*)nd : (const void*)h;
            if (memcmp(h, nd, mn) == 0) { bool r3 = gp_bytes_equal(big, hl, big, nl); if (r3 != r) printf(" aliased-variant:%d", r3); }
            puts("");
        } else if (!strcmp(t[0], "eqc") && n == 3) {
            bool r = gp_bytes_equal_case(h, hl, nd, nl);
            printf("%d", r);
            size_t mn = hl < nl ? hl : nl; const void* big = hl < nl ? (const void*)nd : (const void*)h;
            if (memcmp(h, nd, mn) == 0) { bool r3 = gp_bytes_equal_case(big, hl, big, nl); if (r3 != r) printf(" aliased-variant:%d", r3); }
            puts("");
        } else puts("bad-op");
        free(h); free(nd);
    }
    return 0;
}
