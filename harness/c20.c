/* C20 driver: numeric helpers.  Links against the freshly built library objects. */
#include <gpc/utils.h>
#include <gpc/hashmap.h>
#include "proto.h"

static void put_u128(GPUint128 v)
{
    /* decimal print of a 128-bit value */
    unsigned __int128 x = ((unsigned __int128)*gp_u128_hi(&v) << 64) | *gp_u128_lo(&v);
    char buf[64]; int i = 63; buf[i] = 0;
    if (x == 0) buf[--i] = '0';
    while (x) { buf[--i] = (char)('0' + (int)(x % 10)); x /= 10; }
    puts(buf + i);
}

int main(void)
{
    setvbuf(stdout, NULL, _IOLBF, 0);
    while (vp_next()) {
        if (vp_ntok < 2 || strcmp(vp_tok[0], "num") != 0) { puts("bad-op"); continue; }
        char** t = vp_tok + 1; int n = vp_ntok - 1;
        if (!strcmp(t[0], "fnv32") && n == 2) {
            size_t len; uint8_t* b = vp_hex(t[1], &len);
            printf("%" PRIu32 "\n", gp_bytes_hash32(b, len)); free(b);
        } else if (!strcmp(t[0], "fnv64") && n == 2) {
            size_t len; uint8_t* b = vp_hex(t[1], &len);
            printf("%" PRIu64 "\n", gp_bytes_hash64(b, len)); free(b);
        } else if (!strcmp(t[0], "fnv128") && n == 2) {
            size_t len; uint8_t* b = vp_hex(t[1], &len);
            put_u128(gp_bytes_hash128(b, len)); free(b);
        } else if (!strcmp(t[0], "np2_32") && n == 2) {
            printf("%" PRIu32 "\n", gp_next_power_of_2_32((uint32_t)strtoull(t[1], NULL, 10)));
        } else if (!strcmp(t[0], "np2_64") && n == 2) {
            printf("%" PRIu64 "\n", gp_next_power_of_2_64(strtoull(t[1], NULL, 10)));
        } else if (!strcmp(t[0], "round") && n == 3) {
            printf("%" PRIu64 "\n", (uint64_t)gp_round_to_aligned(strtoull(t[1], NULL, 10), strtoull(t[2], NULL, 10)));
        } else if (!strcmp(t[0], "cb") && n == 4) {
            size_t s = 0, e = 0, l = strtoull(t[3], NULL, 10);
            size_t *ps = NULL, *pe = NULL;
            if (strcmp(t[1], "-")) { s = strtoull(t[1], NULL, 10); ps = &s; }
            if (strcmp(t[2], "-")) { e = strtoull(t[2], NULL, 10); pe = &e; }
            bool ok = gp_check_bounds(ps, pe, l);
            printf("%d ", ok);
            if (ps) printf("%zu ", s); else printf("- ");
            if (pe) printf("%zu\n", e); else printf("-\n");
        } else if (!strcmp(t[0], "rand") && n == 3) {
            GPRandomState st = gp_new_random_state(strtoull(t[1], NULL, 10));
            unsigned long k = strtoul(t[2], NULL, 10);
            for (unsigned long i = 0; i < k; i++) printf("%s%" PRIu32, i ? " " : "", gp_random(&st));
            puts("");
        } else if (!strcmp(t[0], "frand") && n == 3) {
            /* gp_frandom: OUT(x) marks a value outside [0,1) (the property); otherwise the numerator f * 2^32 when
             * it is an integer (what the model predicts), else the value itself (a correspondence difference only) */
            GPRandomState st = gp_new_random_state(strtoull(t[1], NULL, 10));
            unsigned long k = strtoul(t[2], NULL, 10);
            for (unsigned long i = 0; i < k; i++) {
                double f = gp_frandom(&st);
                double sc = f * 4294967296.0;
                if (!(f >= 0.0 && f < 1.0)) printf("%sOUT(%a)", i ? " " : "", f);
                else if (sc != (double)(uint64_t)sc) printf("%sx(%a)", i ? " " : "", f);
                else printf("%s%" PRIu64, i ? " " : "", (uint64_t)sc);
            }
            puts("");
        } else if (!strcmp(t[0], "rr") && n == 5) {
            GPRandomState st = gp_new_random_state(strtoull(t[1], NULL, 10));
            int32_t lo = (int32_t)strtoll(t[2], NULL, 10), hi = (int32_t)strtoll(t[3], NULL, 10);
            unsigned long k = strtoul(t[4], NULL, 10);
            for (unsigned long i = 0; i < k; i++) printf("%s%" PRId32, i ? " " : "", gp_random_range(&st, lo, hi));
            puts("");
        } else if (!strcmp(t[0], "mixfixed") && n == 2) {
            /* the same draws written the way a program writes them: constants, one call after the other */
            switch (atoi(t[1])) {
            case 0: { GPRandomState s = gp_new_random_state(7);
                      uint32_t a = gp_random(&s), b = gp_random(&s), c = gp_random(&s), d = gp_random(&s);
                      double f = gp_frandom(&s); int32_t g = gp_random_range(&s, -5, 5);
                      printf("r%" PRIu32 " r%" PRIu32 " r%" PRIu32 " r%" PRIu32 " f%" PRIu64 " g%" PRId32 " \n", a, b, c, d, (uint64_t)(f * 4294967296.0), g); break; }
            case 1: { GPRandomState s = gp_new_random_state(12345);
                      int32_t g1 = gp_random_range(&s, 0, 9); double f = gp_frandom(&s); uint32_t a = gp_random(&s); int32_t g2 = gp_random_range(&s, -100, 100);
                      printf("g%" PRId32 " f%" PRIu64 " r%" PRIu32 " g%" PRId32 " \n", g1, (uint64_t)(f * 4294967296.0), a, g2); break; }
            case 2: { GPRandomState s = gp_new_random_state(0);
                      double f1 = gp_frandom(&s), f2 = gp_frandom(&s); int32_t g = gp_random_range(&s, 1, 6); uint32_t a = gp_random(&s);
                      printf("f%" PRIu64 " f%" PRIu64 " g%" PRId32 " r%" PRIu32 " \n", (uint64_t)(f1 * 4294967296.0), (uint64_t)(f2 * 4294967296.0), g, a); break; }
            default: puts("bad-op");
            }
        } else if (!strcmp(t[0], "mix") && n == 5) {
            /* one generator state used by all three draw functions in turn: script letters r (gp_random), f (gp_frandom,
             * printed as its numerator), g (gp_random_range lo hi).  The scripts "rrrrfg" and "frgfrg" are also compiled as
             * straight-line code (what an optimiser sees in a program that calls the functions one after another). */
            uint64_t seed = strtoull(t[1], NULL, 10);
            int32_t lo = (int32_t)strtoll(t[2], NULL, 10), hi = (int32_t)strtoll(t[3], NULL, 10);
            const char* sc = t[4];
            GPRandomState st = gp_new_random_state(seed);
#define PF(x) do { double f_ = (x); printf("f%" PRIu64 " ", (uint64_t)(f_ * 4294967296.0)); } while (0)
            if (!strcmp(sc, "rrrrfg")) {
                uint32_t a = gp_random(&st), b = gp_random(&st), c = gp_random(&st), d = gp_random(&st);
                double f = gp_frandom(&st); int32_t g = gp_random_range(&st, lo, hi);
                printf("r%" PRIu32 " r%" PRIu32 " r%" PRIu32 " r%" PRIu32 " ", a, b, c, d); PF(f); printf("g%" PRId32 " ", g);
            } else if (!strcmp(sc, "frgfrg")) {
                double f1 = gp_frandom(&st); uint32_t r1 = gp_random(&st); int32_t g1 = gp_random_range(&st, lo, hi);
                double f2 = gp_frandom(&st); uint32_t r2 = gp_random(&st); int32_t g2 = gp_random_range(&st, lo, hi);
                PF(f1); printf("r%" PRIu32 " g%" PRId32 " ", r1, g1); PF(f2); printf("r%" PRIu32 " g%" PRId32 " ", r2, g2);
            } else for (const char* c = sc; *c; c++) {
                if (*c == 'r') printf("r%" PRIu32 " ", gp_random(&st));
                else if (*c == 'f') PF(gp_frandom(&st));
                else if (*c == 'g') printf("g%" PRId32 " ", gp_random_range(&st, lo, hi));
            }
            puts("");
        } else puts("bad-op");
    }
    return 0;
}
