import Gpc.Model.Str
import Gpc.Proofs.Str
import Gpc.Proofs.Utf8Sync
/-!
# C04 — string edits equal the byte-sequence model; a terminator always fits

Part A: the fixed-buffer `gp_bytes_*` operations write exactly the model's bytes and report the
model's length whenever the destination has room for the result (and touch nothing outside it).
Part B: `GPString` — invariant `length ≤ capacity ∧ |storage| = capacity + 1`, preserved by
`gp_str_reserve` on every storage kind and by every edit; `gp_cstr` always fits.
Part C: code point sets (UTF-8): `strstr`-based membership is membership in the set of code points.
-/
namespace Gpc.Str
open Gpc.Arr (memmove memcpyIn np2 Kind memmove_some memmove_length memcpyIn_some memcpyIn_length np2_gt)

/-! ## Part A — fixed buffers -/

theorem bAppend_spec (buf src : Bytes) (len : Nat) (h : len + src.length ≤ buf.length) :
    ∃ b, bAppend buf len src = some (b, len + src.length) ∧ b.length = buf.length ∧
      b.take (len + src.length) = buf.take len ++ src := by
  unfold bAppend
  rw [memcpyIn_some _ _ _ h]
  exact ⟨_, rfl, memcpyIn_length _ _ _ h, append_bytes _ _ _ h⟩

theorem bInsert_spec (buf src : Bytes) (len pos : Nat) (hp : pos ≤ len) (h : len + src.length ≤ buf.length) :
    ∃ b, bInsert buf len pos src = some (b, len + src.length) ∧ b.length = buf.length ∧
      b.take (len + src.length) = (buf.take len).take pos ++ src ++ (buf.take len).drop pos := by
  unfold bInsert
  rw [memmove_some _ _ _ _ (by omega) (by omega)]
  simp only []
  have hl1 := memmove_length buf (pos + src.length) pos (len - pos) (by omega) (by omega)
  rw [memcpyIn_some _ _ _ (by rw [hl1]; omega)]
  refine ⟨_, rfl, by rw [memcpyIn_length _ _ _ (by rw [hl1]; omega), hl1], ?_⟩
  exact Gpc.Arr.insert_bytes buf src pos src.length len hp rfl h

theorem bReplaceRange_spec (buf repl : Bytes) (len start stop : Nat) (h1 : start ≤ stop) (h2 : stop ≤ len)
    (h3 : len ≤ buf.length) (h4 : start + repl.length + (len - stop) ≤ buf.length) :
    ∃ b, bReplaceRange buf len start stop repl = some (b, len + repl.length - (stop - start)) ∧ b.length = buf.length ∧
      b.take (len + repl.length - (stop - start)) = (buf.take len).take start ++ repl ++ (buf.take len).drop stop := by
  unfold bReplaceRange
  rw [memmove_some _ _ _ _ (by omega) (by omega)]
  simp only []
  have hl1 := memmove_length buf (start + repl.length) stop (len - stop) (by omega) (by omega)
  rw [memcpyIn_some _ _ _ (by rw [hl1]; omega)]
  refine ⟨_, rfl, by rw [memcpyIn_length _ _ _ (by rw [hl1]; omega), hl1], ?_⟩
  exact replace_range_bytes buf repl start stop len h1 h2 h3 h4

theorem bSliceSelf_spec (buf : Bytes) (start stop : Nat) (h1 : start ≤ stop) (h2 : stop ≤ buf.length) :
    ∃ b, bSliceSelf buf start stop = some (b, stop - start) ∧ b.length = buf.length ∧
      b.take (stop - start) = (buf.drop start).take (stop - start) := by
  unfold bSliceSelf
  rw [memmove_some _ _ _ _ (by omega) (by omega)]
  exact ⟨_, rfl, memmove_length _ _ _ _ (by omega) (by omega), slice_self_bytes buf start stop h1 h2⟩

theorem bSliceFrom_spec (buf src : Bytes) (start stop : Nat) (h1 : start ≤ stop) (h2 : stop ≤ src.length)
    (h3 : stop - start ≤ buf.length) :
    ∃ b, bSliceFrom buf src start stop = some (b, stop - start) ∧ b.length = buf.length ∧
      b.take (stop - start) = (src.drop start).take (stop - start) := by
  unfold bSliceFrom
  have hl : ((src.drop start).take (stop - start)).length = stop - start := by
    simp only [List.length_take, List.length_drop]; omega
  simp only [h2, if_true]
  generalize (src.drop start).take (stop - start) = X at *
  rw [memcpyIn_some _ _ _ (by rw [hl]; omega)]
  refine ⟨_, rfl, memcpyIn_length _ _ _ (by rw [hl]; omega), ?_⟩
  rw [← hl]; exact write_at_zero buf X (by rw [hl]; exact h3)

theorem bRepeat_spec (buf mem : Bytes) (n : Nat) (h : n * mem.length ≤ buf.length) :
    ∃ b, bRepeat buf n mem = some (b, n * mem.length) ∧ b.length = buf.length ∧
      b.take (n * mem.length) = (List.replicate n mem).flatten := by
  unfold bRepeat
  have hl := flatten_replicate_length n mem
  generalize (List.replicate n mem).flatten = X at *
  rw [memcpyIn_some _ _ _ (by rw [hl]; omega)]
  refine ⟨_, rfl, memcpyIn_length _ _ _ (by rw [hl]; omega), ?_⟩
  rw [← hl]; exact write_at_zero buf X (by rw [hl]; exact h)

/-! ## Part B — GPString -/

structure Inv (s : Str) : Prop where
  len_le : s.length ≤ s.capacity
  size : s.data.length = s.capacity + 1

theorem new_inv (capacity : Nat) (init : Bytes) (k : Kind) : Inv (new capacity init k) := by
  refine ⟨Nat.le_max_left _ _, ?_⟩
  simp only [new, List.length_append, List.length_replicate]
  have := Nat.le_max_left init.length capacity
  omega

theorem new_bytes (capacity : Nat) (init : Bytes) (k : Kind) : bytes (new capacity init k) = init := by
  simp [bytes, new]

/-- `gp_str_reserve` keeps the invariant — the terminator byte is set aside on EVERY storage kind,
also when an arena extends the block in place — and the content -/
theorem reserve_inv (s : Str) (r : Nat) (h : Inv s) : Inv (reserve s r) := by
  obtain ⟨hl, hs⟩ := h
  unfold reserve
  split
  · exact ⟨hl, hs⟩
  · split
    · have hgt := np2_gt (r + 1)
      refine ⟨by simp only []; omega, ?_⟩
      simp only [List.length_append, List.length_take, List.length_replicate, hs]
      omega
    · exact ⟨hl, hs⟩

theorem reserve_bytes (s : Str) (r : Nat) (h : Inv s) :
    bytes (reserve s r) = bytes s ∧ (reserve s r).length = s.length := by
  obtain ⟨hl, hs⟩ := h
  unfold reserve bytes
  split
  · exact ⟨rfl, rfl⟩
  · split
    · refine ⟨?_, rfl⟩
      simp only []
      rw [List.take_append_of_le_length (by simp only [List.length_take]; omega), List.take_take]
      congr 1; omega
    · exact ⟨rfl, rfl⟩

def CanGrow (s : Str) (need : Nat) : Prop := s.kind ≠ .stack false ∨ need ≤ s.capacity

theorem reserve_fits (s : Str) (need : Nat) (hg : CanGrow s need) : need ≤ (reserve s need).capacity := by
  unfold reserve
  rcases hg with hk | hc
  · split
    · rename_i hkk; exact absurd hkk hk
    · split
      · have := np2_gt (need + 1); simp only []; omega
      · omega
  · split
    · exact hc
    · split
      · have := np2_gt (need + 1); simp only []; omega
      · exact hc

/-- the string can always be made a C string in place: the write is inside the storage and changes
neither the length nor the content -/
theorem cstr_ok (s : Str) (h : Inv s) : ∃ s', cstr s = some s' ∧ bytes s' = bytes s ∧ s'.length = s.length ∧ Inv s' := by
  have hfit : s.length + ([0] : Bytes).length ≤ s.data.length := by
    rw [h.size]; simp only [List.length_cons, List.length_nil]; have := h.len_le; omega
  unfold cstr
  rw [memcpyIn_some _ _ _ hfit]
  refine ⟨_, rfl, ?_, rfl, ⟨h.len_le, ?_⟩⟩
  · simp only [bytes]
    rw [List.append_assoc, List.take_append_of_le_length (by simp only [List.length_take]; omega), List.take_take]
    congr 1; omega
  · simp only []; rw [memcpyIn_length _ _ _ hfit, h.size]

/-- glue: an edit = reserve, then a buffer operation on the storage with the old length -/
theorem edit_spec (s : Str) (need : Nat) (op : Bytes → Option (Bytes × Nat)) (spec : Bytes) (h : Inv s)
    (hg : CanGrow s need) (hspec : spec.length = need)
    (hop : ∀ buf : Bytes, need + 1 ≤ buf.length → s.length + 1 ≤ buf.length → buf.take s.length = bytes s →
      ∃ b, op buf = some (b, need) ∧ b.length = buf.length ∧ b.take need = spec) :
    ∃ s', withBuf (reserve s need) (op (reserve s need).data) = some s' ∧ Inv s' ∧ bytes s' = spec ∧ s'.length = need := by
  have hi := reserve_inv s need h
  obtain ⟨hb, hl⟩ := reserve_bytes s need h
  have hc := reserve_fits s need hg
  generalize reserve s need = s1 at *
  obtain ⟨b, h1, h2, h3⟩ := hop s1.data (by rw [hi.size]; omega) (by rw [hi.size, ← hl]; have := hi.len_le; omega)
    (by simp only [bytes] at hb; rw [← hl]; exact hb)
  rw [h1]
  exact ⟨_, rfl, ⟨hc, by simp only []; rw [h2, hi.size]⟩, by simp only [bytes]; exact h3, rfl⟩

/-- copy -/
theorem copy_spec (s : Str) (src : Bytes) (h : Inv s) (hg : CanGrow s src.length) :
    ∃ s', copy s src = some s' ∧ Inv s' ∧ bytes s' = src ∧ s'.length = src.length := by
  unfold copy
  apply edit_spec s src.length (fun buf => (memcpyIn buf 0 src).map fun b => (b, src.length)) src h hg rfl
  intro buf hb _ _
  rw [memcpyIn_some _ _ _ (by omega)]
  exact ⟨_, rfl, memcpyIn_length _ _ _ (by omega), write_at_zero buf src (by omega)⟩

/-- append -/
theorem append_spec (s : Str) (src : Bytes) (h : Inv s) (hg : CanGrow s (s.length + src.length)) :
    ∃ s', append s src = some s' ∧ Inv s' ∧ bytes s' = bytes s ++ src ∧ s'.length = s.length + src.length := by
  unfold append
  have hbl : (bytes s).length = s.length := by
    simp only [bytes, List.length_take, h.size]; have := h.len_le; omega
  apply edit_spec s (s.length + src.length) (fun buf => bAppend buf s.length src) (bytes s ++ src) h hg
    (by rw [List.length_append, hbl])
  intro buf hb _ hcur
  obtain ⟨b, r1, r2, r3⟩ := bAppend_spec buf src s.length (by omega)
  exact ⟨b, r1, r2, by rw [r3, hcur]⟩

/-- insert at `pos ≤ length` -/
theorem insert_spec (s : Str) (pos : Nat) (src : Bytes) (h : Inv s) (hp : pos ≤ s.length)
    (hg : CanGrow s (s.length + src.length)) :
    ∃ s', insert s pos src = some s' ∧ Inv s' ∧
      bytes s' = (bytes s).take pos ++ src ++ (bytes s).drop pos ∧ s'.length = s.length + src.length := by
  unfold insert
  have hbl : (bytes s).length = s.length := by
    simp only [bytes, List.length_take, h.size]; have := h.len_le; omega
  apply edit_spec s (s.length + src.length) (fun buf => bInsert buf s.length pos src) _ h hg
    (by simp only [List.length_append, List.length_take, List.length_drop, hbl]; omega)
  intro buf hb _ hcur
  obtain ⟨b, r1, r2, r3⟩ := bInsert_spec buf src s.length pos hp (by omega)
  exact ⟨b, r1, r2, by rw [r3, hcur]⟩

/-- repeat -/
theorem repeat_spec (s : Str) (n : Nat) (mem : Bytes) (h : Inv s) (hg : CanGrow s (n * mem.length)) :
    ∃ s', rep s n mem = some s' ∧ Inv s' ∧ bytes s' = (List.replicate n mem).flatten ∧ s'.length = n * mem.length := by
  unfold rep
  apply edit_spec s (n * mem.length) (fun buf => bRepeat buf n mem) _ h hg (flatten_replicate_length n mem)
  intro buf hb _ _
  exact bRepeat_spec buf mem n (by omega)

/-- in-place slice -/
theorem slice_self_spec (s : Str) (start stop : Nat) (h : Inv s) (h1 : start ≤ stop) (h2 : stop ≤ s.length) :
    ∃ s', sliceSelf s start stop = some s' ∧ Inv s' ∧
      bytes s' = ((bytes s).drop start).take (stop - start) ∧ s'.length = stop - start := by
  unfold sliceSelf
  obtain ⟨b, r1, r2, r3⟩ := bSliceSelf_spec s.data start stop h1 (by rw [h.size]; have := h.len_le; omega)
  rw [r1]
  refine ⟨_, rfl, ⟨by simp only []; have := h.len_le; omega, by simp only []; rw [r2, h.size]⟩, ?_, rfl⟩
  simp only [bytes]; rw [r3]
  rw [List.drop_take, List.take_take]; congr 1; omega

/-- slice of another buffer -/
theorem slice_from_spec (s : Str) (src : Bytes) (start stop : Nat) (h : Inv s) (h1 : start ≤ stop)
    (h2 : stop ≤ src.length) (hg : CanGrow s (stop - start)) :
    ∃ s', sliceFrom s src start stop = some s' ∧ Inv s' ∧
      bytes s' = (src.drop start).take (stop - start) ∧ s'.length = stop - start := by
  unfold sliceFrom
  apply edit_spec s (stop - start) (fun buf => bSliceFrom buf src start stop) _ h hg
    (by simp only [List.length_take, List.length_drop]; omega)
  intro buf hb _ _
  exact bSliceFrom_spec buf src start stop h1 h2 (by omega)

/-! ### replace first / replace all -/

open Gpc.Search (memmem OccursAt memmem_some memmem_none occursAt_le_length occursAt_drop)

/-- `gp_bytes_find_first` on the current content: first occurrence at or after `start` -/
theorem bFind_eq (buf : Bytes) (len : Nat) (needle : Bytes) (start : Nat) (hs : start ≤ len) :
    bFind buf len needle start = (memmem ((buf.take len).drop start) needle).map (· + start) := by
  simp [bFind, hs]

/-- replace the first occurrence at or after `start` (left-most match), or report not found and
leave the string alone -/
theorem replace_spec (s : Str) (needle repl : Bytes) (start : Nat) (h : Inv s) (hn : needle ≠ [])
    (hs : start ≤ s.length) (hk : s.kind ≠ .stack false) :
    (memmem ((bytes s).drop start) needle = none → replace s needle repl start = some (s, none)) ∧
    (∀ k, memmem ((bytes s).drop start) needle = some k →
      ∃ s', replace s needle repl start = some (s', some (k + start)) ∧ Inv s' ∧ s'.kind ≠ .stack false ∧
        bytes s' = (bytes s).take (k + start) ++ repl ++ (bytes s).drop (k + start + needle.length)) := by
  have hbl : (bytes s).length = s.length := by
    simp only [bytes, List.length_take, h.size]; have := h.len_le; omega
  constructor
  · intro hm
    unfold replace
    rw [bFind_eq _ _ _ _ hs]
    simp only [bytes] at hm
    rw [hm]; rfl
  · intro k hm
    have hocc := (memmem_some _ _ _).1 hm
    have hfit := occursAt_le_length _ _ _ hn hocc.1
    simp only [List.length_drop, hbl] at hfit
    have hnl : 0 < needle.length := List.length_pos_iff.mpr hn
    unfold replace
    rw [bFind_eq _ _ _ _ hs]
    simp only [bytes] at hm
    rw [hm]
    simp only [Option.map_some]
    have hfit' : k + start + needle.length ≤ s.length := by omega
    have := edit_spec s (s.length + repl.length - needle.length)
      (fun buf => bReplaceRange buf s.length (k + start) (k + start + needle.length) repl)
      ((bytes s).take (k + start) ++ repl ++ (bytes s).drop (k + start + needle.length)) h (Or.inl hk)
      (by simp only [List.length_append, List.length_take, List.length_drop, hbl]; omega)
      (by
        intro buf hb _ hcur
        obtain ⟨b, r1, r2, r3⟩ := bReplaceRange_spec buf repl s.length (k + start) (k + start + needle.length)
          (by omega) (by omega) (by omega) (by omega)
        have e : s.length + repl.length - (k + start + needle.length - (k + start)) = s.length + repl.length - needle.length := by omega
        rw [e] at r1 r3
        exact ⟨b, r1, r2, by rw [r3, hcur]⟩)
    obtain ⟨s', e1, e2, e3, e4⟩ := this
    rw [e1]
    refine ⟨s', rfl, e2, ?_, e3⟩
    -- the kind stays growable
    have : (reserve s (s.length + repl.length - needle.length)).kind ≠ .stack false := by
      unfold reserve
      cases hkk : s.kind with
      | heap => simp only []; split <;> simp [hkk]
      | arena => simp only []; split <;> simp [hkk]
      | stack b =>
        cases b with
        | false => exact absurd hkk hk
        | true => simp only []; split <;> simp [hkk]
    unfold withBuf at e1
    cases hr : bReplaceRange (reserve s (s.length + repl.length - needle.length)).data s.length (k + start) (k + start + needle.length) repl with
    | none => rw [hr] at e1; simp at e1
    | some p => rw [hr] at e1; simp at e1; rw [← e1]; exact this

/-- replace-all specification: scan left to right; at the first occurrence splice the replacement
and continue AFTER it (occurrences do not overlap, the replacement is not rescanned) -/
def replaceAllSpec (needle repl : Bytes) : (fuel : Nat) → Bytes → Bytes
  | 0, s => s
  | fuel + 1, s =>
    match memmem s needle with
    | none => s
    | some k => s.take k ++ repl ++ replaceAllSpec needle repl fuel (s.drop (k + needle.length))

theorem replaceAll_spec (needle repl : Bytes) (hn : needle ≠ []) (fuel : Nat) (s : Str) (start count : Nat)
    (h : Inv s) (hs : start ≤ s.length) (hk : s.kind ≠ .stack false) :
    ∃ s' c, replaceAll needle repl fuel s start count = some (s', c) ∧ Inv s' ∧
      bytes s' = (bytes s).take start ++ replaceAllSpec needle repl fuel ((bytes s).drop start) := by
  induction fuel generalizing s start count with
  | zero => exact ⟨s, count, rfl, h, by simp [replaceAllSpec]⟩
  | succ f ih =>
    have hbl : (bytes s).length = s.length := by
      simp only [bytes, List.length_take, h.size]; have := h.len_le; omega
    obtain ⟨r1, r2⟩ := replace_spec s needle repl start h hn hs hk
    simp only [replaceAll, replaceAllSpec]
    cases hm : memmem ((bytes s).drop start) needle with
    | none =>
      have := r1 hm
      unfold replace at this
      rw [bFind_eq _ _ _ _ hs] at this ⊢
      simp only [bytes] at hm
      rw [hm]
      exact ⟨s, count, rfl, h, by simp⟩
    | some k =>
      obtain ⟨s2, e1, e2, e3, e4⟩ := r2 k hm
      have hocc := (memmem_some _ _ _).1 hm
      have hfit := occursAt_le_length _ _ _ hn hocc.1
      simp only [List.length_drop, hbl] at hfit
      unfold replace at e1
      rw [bFind_eq _ _ _ _ hs] at e1 ⊢
      simp only [bytes] at hm
      rw [hm] at e1 ⊢
      simp only [Option.map_some] at e1 ⊢
      cases hw : withBuf (reserve s (s.length + repl.length - needle.length))
          (bReplaceRange (reserve s (s.length + repl.length - needle.length)).data s.length (k + start) (k + start + needle.length) repl) with
      | none => rw [hw] at e1; simp at e1
      | some s2' =>
        rw [hw] at e1
        simp only [Option.map_some, Option.some.injEq, Prod.mk.injEq] at e1
        have hs2 : s2' = s2 := e1.1
        subst hs2
        simp only []
        have hb2l : (bytes s2').length = s2'.length := by
          simp only [bytes, List.length_take, e2.size]; have := e2.len_le; omega
        have hlen2 : k + start + repl.length ≤ s2'.length := by
          rw [← hb2l, e4]; simp only [List.length_append, List.length_take, List.length_drop, hbl]; omega
        obtain ⟨s', c, q1, q2, q3⟩ := ih s2' (k + start + repl.length) (count + 1) e2 hlen2 e3
        refine ⟨s', c, q1, q2, ?_⟩
        rw [q3, e4]
        have t1 : ((bytes s).take (k + start) ++ repl ++ (bytes s).drop (k + start + needle.length)).take (k + start + repl.length)
            = (bytes s).take (k + start) ++ repl := by
          rw [List.take_append_of_le_length (by simp only [List.length_append, List.length_take, hbl]; omega)]
          rw [List.take_of_length_le (by simp only [List.length_append, List.length_take, hbl]; omega)]
        have t2 : ((bytes s).take (k + start) ++ repl ++ (bytes s).drop (k + start + needle.length)).drop (k + start + repl.length)
            = (bytes s).drop (k + start + needle.length) := by
          rw [List.drop_append_of_le_length (by simp only [List.length_append, List.length_take, hbl]; omega)]
          rw [List.drop_of_length_le (by simp only [List.length_append, List.length_take, hbl]; omega), List.nil_append]
        rw [t1, t2]
        have t3 : (bytes s).take (k + start) = (bytes s).take start ++ ((bytes s).drop start).take k := by
          rw [Nat.add_comm, List.take_add]
        have t4 : ((bytes s).drop start).drop (k + needle.length) = (bytes s).drop (k + start + needle.length) := by
          rw [List.drop_drop]; congr 1; omega
        rw [t3, t4]; simp [List.append_assoc]

/-! ### trim (byte sets) -/

theorem drop_takeWhile_length (p : UInt8 → Bool) (l : Bytes) : l.drop (l.takeWhile p).length = l.dropWhile p := by
  induction l with
  | nil => rfl
  | cons a t ih =>
    by_cases h : p a
    · simp [List.takeWhile_cons, List.dropWhile_cons, h, ih]
    · simp [List.takeWhile_cons, List.dropWhile_cons, h]

theorem length_takeWhile_le' (p : UInt8 → Bool) (l : Bytes) : (l.takeWhile p).length ≤ l.length := by
  have := congrArg List.length (List.takeWhile_append_dropWhile (p := p) (l := l))
  simp only [List.length_append] at this; omega

theorem take_sub_reverse_takeWhile (p : UInt8 → Bool) (l : Bytes) :
    l.take (l.length - (l.reverse.takeWhile p).length) = (l.reverse.dropWhile p).reverse := by
  have h1 : l.reverse = l.reverse.takeWhile p ++ l.reverse.dropWhile p := (List.takeWhile_append_dropWhile).symm
  have h2 : l = (l.reverse.dropWhile p).reverse ++ (l.reverse.takeWhile p).reverse := by
    have := congrArg List.reverse h1
    rw [List.reverse_reverse, List.reverse_append] at this
    exact this
  generalize hA : (l.reverse.dropWhile p).reverse = A at h2 ⊢
  generalize hB : (l.reverse.takeWhile p).reverse = B at h2
  have hBl : (l.reverse.takeWhile p).length = B.length := by rw [← hB, List.length_reverse]
  rw [hBl]
  subst h2
  simp

/-- trimming specification on the byte sequence: drop members from the chosen ends -/
def trimSpec (set : Bytes) (left right : Bool) (cur : Bytes) : Bytes :=
  let a := if left then cur.dropWhile (memberByte set) else cur
  if right then (a.reverse.dropWhile (memberByte set)).reverse else a

theorem bTrim_spec (buf : Bytes) (len : Nat) (set : Bytes) (left right : Bool) (h : len ≤ buf.length) :
    ∃ b l, bTrim buf len set left right = some (b, l) ∧ b.length = buf.length ∧
      b.take l = trimSpec set left right (buf.take len) ∧ l ≤ len := by
  unfold bTrim trimSpec
  by_cases h0 : len = 0
  · subst h0
    refine ⟨buf, 0, by simp, rfl, ?_, Nat.le_refl _⟩
    cases left <;> cases right <;> simp
  · simp only [h0, if_false]
    have hcl : (buf.take len).length = len := by simp only [List.length_take]; omega
    cases left with
    | false =>
      simp only [Bool.false_eq_true, if_false, Nat.sub_zero]
      cases right with
      | false => simp only [Bool.false_eq_true, if_false, Nat.sub_zero]; exact ⟨_, _, rfl, rfl, rfl, Nat.le_refl _⟩
      | true =>
        simp only [if_true]
        refine ⟨_, _, rfl, rfl, ?_, Nat.sub_le _ _⟩
        have := take_sub_reverse_takeWhile (memberByte set) (buf.take len)
        rw [hcl] at this
        rw [← this, List.take_take]; congr 1; omega
    | true =>
      simp only [if_true]
      have hp : ((buf.take len).takeWhile (memberByte set)).length ≤ len := by
        have := length_takeWhile_le' (memberByte set) (buf.take len); omega
      rw [memmove_some _ _ _ _ (by omega) (by omega)]
      simp only []
      generalize hP : ((buf.take len).takeWhile (memberByte set)).length = P at *
      have hb1 : (buf.take 0 ++ (buf.drop P).take (len - P) ++ buf.drop (0 + (len - P))).take (len - P)
          = (buf.take len).dropWhile (memberByte set) := by
        rw [slice_self_bytes buf P len hp h, ← drop_takeWhile_length, hP, List.drop_take]
      have hl1 := memmove_length buf 0 P (len - P) (by omega) (by omega)
      cases right with
      | false =>
        simp only [Bool.false_eq_true, if_false, Nat.sub_zero]
        exact ⟨_, _, rfl, hl1, hb1, Nat.sub_le _ _⟩
      | true =>
        simp only [if_true]
        refine ⟨_, _, rfl, hl1, ?_, by omega⟩
        rw [hb1]
        have hdl : ((buf.take len).dropWhile (memberByte set)).length = len - P := by
          rw [← drop_takeWhile_length, hP]; simp only [List.length_drop, List.length_take]; omega
        have := take_sub_reverse_takeWhile (memberByte set) ((buf.take len).dropWhile (memberByte set))
        rw [hdl] at this
        rw [← this, ← hb1, List.take_take]; congr 1; omega

/-- ASCII trim of a string -/
theorem trimAscii_spec (s : Str) (set : Bytes) (left right : Bool) (h : Inv s) :
    ∃ s', trimAscii s set left right = some s' ∧ Inv s' ∧ bytes s' = trimSpec set left right (bytes s) := by
  unfold trimAscii
  by_cases h0 : s.length = 0
  · simp only [h0, if_true]
    refine ⟨s, rfl, h, ?_⟩
    have : bytes s = [] := by simp [bytes, h0]
    rw [this]; cases left <;> cases right <;> simp [trimSpec]
  · simp only [h0, if_false]
    obtain ⟨b, l, r1, r2, r3, r4⟩ := bTrim_spec s.data s.length set left right (by rw [h.size]; have := h.len_le; omega)
    rw [r1]
    refine ⟨_, rfl, ⟨by simp only []; have := h.len_le; omega, by simp only []; rw [r2, h.size]⟩, ?_⟩
    simp only [bytes]; exact r3

/-! ### join -/

/-- `gp_str_join` : the strings separated by the separator -/
def joinSpec (strs : List Bytes) (sep : Bytes) : Bytes :=
  match strs with
  | [] => []
  | _ => (strs.dropLast.map fun x => x ++ sep).flatten ++ strs.getLastD []

theorem join_length (strs : List Bytes) (sep : Bytes) (hne : strs ≠ []) :
    (joinSpec strs sep).length = (strs.map (·.length)).sum + sep.length * (strs.length - 1) := by
  induction strs with
  | nil => exact absurd rfl hne
  | cons x xs ih =>
    cases xs with
    | nil => simp [joinSpec, List.getLastD]
    | cons y ys =>
      have := ih (by simp)
      simp only [joinSpec, List.dropLast_cons₂, List.map_cons, List.flatten_cons, List.length_append,
        List.getLastD_cons, List.sum_cons, List.length_cons] at this ⊢
      have e : sep.length * (ys.length + 1 + 1 - 1) = sep.length * (ys.length + 1 - 1) + sep.length := by
        rw [show ys.length + 1 + 1 - 1 = (ys.length + 1 - 1) + 1 by omega, Nat.mul_succ]
      rw [e]; omega

theorem join_spec (s : Str) (strs : List Bytes) (sep : Bytes) (h : Inv s)
    (hg : CanGrow s ((strs.map (·.length)).sum + sep.length * (strs.length - 1))) :
    ∃ s', join s strs sep = some s' ∧ Inv s' ∧ bytes s' = joinSpec strs sep := by
  cases strs with
  | nil =>
    refine ⟨_, rfl, ⟨Nat.zero_le _, h.size⟩, ?_⟩
    simp [bytes, joinSpec]
  | cons x xs =>
    have hl := join_length (x :: xs) sep (by simp)
    simp only [join]
    have := edit_spec s ((List.map (·.length) (x :: xs)).sum + sep.length * ((x :: xs).length - 1))
      (fun buf => (memcpyIn buf 0 (joinSpec (x :: xs) sep)).map fun b => (b, (joinSpec (x :: xs) sep).length))
      (joinSpec (x :: xs) sep) h hg hl
      (by
        intro buf hb _ _
        have hJ : 0 + (joinSpec (x :: xs) sep).length ≤ buf.length := by rw [hl]; omega
        rw [memcpyIn_some _ _ _ hJ]
        refine ⟨_, by simp only [Option.map_some, hl], memcpyIn_length _ _ _ hJ, ?_⟩
        rw [← hl]; exact write_at_zero buf _ (by omega))
    obtain ⟨s', e1, e2, e3, _⟩ := this
    exact ⟨s', e1, e2, e3⟩

end Gpc.Str

namespace Gpc.Str
open Gpc.Utf8 (IsCp wfLen cpLen occurs_mem validAtHead validAtHead_eq wfLen_append)
open Gpc.Search (OccursAt memmem memmem_some memmem_none)

/-! ## Part C — code point sets: `strstr`-membership is membership in the set of code points -/

theorem mem_occurs (cs : List Bytes) (c : Bytes) (h : c ∈ cs) : ∃ i, i ≤ cs.flatten.length ∧ OccursAt cs.flatten c i := by
  induction cs with
  | nil => cases h
  | cons x rest ih =>
    rcases List.mem_cons.1 h with e | e
    · subst e
      exact ⟨0, Nat.zero_le _, by simp [OccursAt]⟩
    · obtain ⟨i, h1, h2⟩ := ih e
      refine ⟨x.length + i, by simp only [List.flatten_cons, List.length_append]; omega, ?_⟩
      unfold OccursAt at h2 ⊢
      simp only [List.flatten_cons]
      rw [List.drop_append, List.drop_of_length_le (by omega), List.nil_append]
      have : x.length + i - x.length = i := by omega
      rw [this]; exact h2

theorem memmem_isSome_iff (set c : Bytes) : (memmem set c).isSome = true ↔ ∃ i, i ≤ set.length ∧ OccursAt set c i := by
  constructor
  · intro h
    cases hm : memmem set c with
    | none => rw [hm] at h; simp at h
    | some i => obtain ⟨a, b, _⟩ := (memmem_some _ _ _).1 hm; exact ⟨i, b, a⟩
  · rintro ⟨i, h1, h2⟩
    cases hm : memmem set c with
    | none => exact absurd h2 ((memmem_none _ _).1 hm i h1)
    | some _ => rfl

/-- code point level membership in a set given as the list of its code points -/
def cpMember (cs : List Bytes) (c : Bytes) : Bool := cs.contains c

/-- the library's test (`c[0] != 0 && strstr(set, c)`) decides membership in the set's code points;
the set is a C string (no zero byte inside) -/
theorem memberCp_iff (cs : List Bytes) (hcs : ∀ x ∈ cs, IsCp x) (hz : ∀ x ∈ cs, (0 : UInt8) ∉ x)
    (c : Bytes) (hc : IsCp c) : memberCp cs.flatten c = cpMember cs c := by
  unfold memberCp cpMember
  rcases c with _ | ⟨b, t⟩
  · exact absurd rfl hc.1
  · simp only []
    by_cases hb : b = 0
    · -- a NUL byte is never a member
      subst hb
      have : ¬ ((0 : UInt8) :: t) ∈ cs := fun hm => hz _ hm List.mem_cons_self
      simp [this]
    · have hb' : (b != 0) = true := by simp [hb]
      rw [hb', Bool.true_and]
      by_cases hm : (b :: t) ∈ cs
      · have := mem_occurs cs (b :: t) hm
        rw [(memmem_isSome_iff _ _).2 this]; simp [hm]
      · have : ¬ (memmem cs.flatten (b :: t)).isSome = true := by
          intro h
          obtain ⟨i, _, ho⟩ := (memmem_isSome_iff _ _).1 h
          exact hm (occurs_mem cs hcs (b :: t) hc i ho)
        simp [hm, this]

/-- the lead-byte table gives the length of a well-formed sequence -/
theorem headCp_eq (h rest : Bytes) (hh : IsCp h) : headCp (h ++ rest) = h := by
  have hv := validAtHead_eq (h ++ rest)
  rw [wfLen_append h rest hh.1 hh.2] at hv
  have hne : h.length ≠ 0 := fun e => hh.1 (List.eq_nil_of_length_eq_zero e)
  simp only [hne, if_false] at hv
  rcases h with _ | ⟨b, t⟩
  · exact absurd rfl hh.1
  · simp only [List.cons_append, headCp]
    simp only [List.cons_append, validAtHead] at hv
    split at hv
    · simp at hv
    · split at hv
      · simp only [Option.some.injEq] at hv
        rw [hv]
        simp
      · simp at hv

/-- search over code points: offset of the first code point (from chunk boundary `i`) whose
membership equals `want` -/
theorem findFirstCp_spec (cs : List Bytes) (hcs : ∀ x ∈ cs, IsCp x) (hz : ∀ x ∈ cs, (0 : UInt8) ∉ x)
    (want : Bool) (hs : List Bytes) (hhs : ∀ x ∈ hs, IsCp x) (s : Bytes) (i fuel : Nat)
    (hdrop : s.drop i = hs.flatten) (hlen : i + hs.flatten.length = s.length) (hf : hs.length < fuel) :
    findFirstCp cs.flatten want fuel s i =
      (hs.findIdx? (fun h => cpMember cs h == want)).map fun j => i + (hs.take j).flatten.length := by
  induction hs generalizing i fuel with
  | nil =>
    simp only [List.flatten_nil, List.length_nil, Nat.add_zero] at hlen
    cases fuel with
    | zero => omega
    | succ f => simp [findFirstCp, hlen]
  | cons h t ih =>
    have hh := hhs h List.mem_cons_self
    have hpos := hh.length_pos
    cases fuel with
    | zero => omega
    | succ f =>
      simp only [List.flatten_cons, List.length_append] at hlen
      have hi : i < s.length := by omega
      simp only [findFirstCp, hi, if_true, hdrop, List.flatten_cons, headCp_eq h t.flatten hh]
      have hne : h.isEmpty = false := by cases h <;> simp_all
      simp only [hne, Bool.false_eq_true, if_false, memberCp_iff cs hcs hz h hh, List.findIdx?_cons]
      by_cases hw : (cpMember cs h == want) = true
      · simp [hw]
      · have hw' : (cpMember cs h == want) = false := by simpa using hw
        simp only [hw', Bool.false_eq_true, if_false]
        rw [ih (fun x hx => hhs x (List.mem_cons_of_mem _ hx)) (i + h.length) f
          (by rw [← List.drop_drop, hdrop]; simp) (by omega) (by simp only [List.length_cons] at hf; omega)]
        cases List.findIdx? (fun h => cpMember cs h == want) t with
        | none => simp
        | some j => simp; omega

end Gpc.Str

namespace Gpc.Str
open Gpc.Utf8 (IsCp wfLen cpLen cont cont_of_wfLen lead_not_cont cpLen_eq)

theorem leadingMembers_spec (cs : List Bytes) (hcs : ∀ x ∈ cs, IsCp x) (hz : ∀ x ∈ cs, (0 : UInt8) ∉ x)
    (hs : List Bytes) (hhs : ∀ x ∈ hs, IsCp x) (fuel : Nat) (hf : hs.length < fuel) :
    leadingMembers cs.flatten fuel hs.flatten = (hs.takeWhile (cpMember cs)).flatten.length := by
  induction hs generalizing fuel with
  | nil =>
    cases fuel with
    | zero => omega
    | succ f => simp [leadingMembers, headCp]
  | cons h t ih =>
    have hh := hhs h List.mem_cons_self
    cases fuel with
    | zero => omega
    | succ f =>
      have hne : h.isEmpty = false := by have := hh.1; cases h <;> simp_all
      simp only [leadingMembers, List.flatten_cons, headCp_eq h t.flatten hh, hne, Bool.false_eq_true, if_false,
        memberCp_iff cs hcs hz h hh, List.takeWhile_cons]
      by_cases hm : cpMember cs h = true
      · simp only [hm, if_true, List.flatten_cons, List.length_append, List.drop_left']
        rw [ih (fun x hx => hhs x (List.mem_cons_of_mem _ hx)) f (by simp only [List.length_cons] at hf; omega)]
      · simp [hm]

theorem cpLen_cont (b : UInt8) (h : cont b) : cpLen b = 0 := by
  unfold cont at h
  rw [cpLen_eq]; (repeat' split) <;> omega

theorem cpLen_lead (c : Bytes) (hc : IsCp c) : ∃ b, c[0]? = some b ∧ cpLen b = c.length := by
  have := headCp_eq c [] hc
  rcases c with _ | ⟨b, t⟩
  · exact absurd rfl hc.1
  · refine ⟨b, rfl, ?_⟩
    simp only [List.append_nil, headCp] at this
    have hl := congrArg List.length this
    simp only [List.length_take, List.length_cons] at hl
    have hp := hc.length_pos
    -- cpLen b ≤ 4 and the take has the full length
    have h4 : cpLen b ≤ 4 := by rw [cpLen_eq]; (repeat' split) <;> omega
    have hw := (Gpc.Utf8.wfLen_le (b :: t))
    simp only [List.length_cons] at hl hw ⊢
    have hcl := hc.2
    simp only [List.length_cons] at hcl
    -- if cpLen b were larger than the sequence, the validator would have rejected it
    have hv := Gpc.Utf8.validAtHead_eq (b :: t)
    rw [hcl] at hv
    simp only [Nat.succ_ne_zero, if_false, Gpc.Utf8.validAtHead, List.length_cons] at hv
    split at hv
    · simp at hv
    · split at hv
      · simp only [Option.some.injEq] at hv; exact hv
      · simp at hv

/-- scanning back from inside the last code point finds its first byte -/
theorem lastCpStart_spec (pre last post : Bytes) (hl : IsCp last) (j : Nat) (hj : j < last.length) (fuel : Nat) (hf : j ≤ fuel) :
    lastCpStart (pre ++ last ++ post) fuel (pre.length + j) = pre.length := by
  induction j generalizing fuel with
  | zero =>
    obtain ⟨b, hb1, hb2⟩ := cpLen_lead last hl
    have hp := hl.length_pos
    have hget : (pre ++ last ++ post)[pre.length]? = some b := by
      rw [List.append_assoc, List.getElem?_append_right (Nat.le_refl _), Nat.sub_self, List.getElem?_append_left hp]
      exact hb1
    cases fuel with
    | zero => rfl
    | succ f =>
      simp only [lastCpStart, Nat.add_zero, hget]
      have : (cpLen b == 0) = false := by rw [hb2]; simp only [beq_eq_false_iff_ne, ne_eq]; omega
      simp [this]
  | succ k ih =>
    cases fuel with
    | zero => omega
    | succ f =>
      obtain ⟨b, hb1, hb2⟩ := cont_of_wfLen last last.length hl.2 (k + 1) (by omega) hj
      have hget : (pre ++ last ++ post)[pre.length + (k + 1)]? = some b := by
        rw [List.append_assoc, List.getElem?_append_right (by omega)]
        have : pre.length + (k + 1) - pre.length = k + 1 := by omega
        rw [this, List.getElem?_append_left hj]; exact hb1
      simp only [lastCpStart, hget, cpLen_cont b hb2]
      have hne : (pre.length + (k + 1) != 0) = true := by simp
      simp only [beq_self_eq_true, hne, Bool.and_self, if_true]
      have : pre.length + (k + 1) - 1 = pre.length + k := by omega
      rw [this]
      exact ih (by omega) f (by omega)

/-- the right-hand loop of `gp_str_trim`: trailing member code points are dropped -/
theorem trailingTrim_spec (cs : List Bytes) (hcs : ∀ x ∈ cs, IsCp x) (hz : ∀ x ∈ cs, (0 : UInt8) ∉ x)
    (hs : List Bytes) (hhs : ∀ x ∈ hs, IsCp x) (post : Bytes) (fuel : Nat) (hf : hs.length < fuel) :
    trailingTrim cs.flatten fuel (hs.flatten ++ post) hs.flatten.length
      = ((hs.reverse.dropWhile (cpMember cs)).reverse).flatten.length := by
  induction fuel generalizing hs post with
  | zero => omega
  | succ f ih =>
    rcases List.eq_nil_or_concat hs with e | ⟨init, last, e⟩
    · subst e; simp [trailingTrim]
    · subst e
      rw [List.concat_eq_append] at *
      have hl : IsCp last := hhs last (by simp)
      have hp := hl.length_pos
      have hinit : ∀ x ∈ init, IsCp x := fun x hx => hhs x (by simp [hx])
      simp only [trailingTrim, List.flatten_append, List.flatten_cons, List.flatten_nil, List.append_nil,
        List.length_append]
      have hne : ¬ init.flatten.length + last.length = 0 := by omega
      simp only [hne, if_false]
      have hidx : init.flatten.length + last.length - 1 = init.flatten.length + (last.length - 1) := by omega
      rw [hidx, lastCpStart_spec init.flatten last post hl (last.length - 1) (by omega) _ (by omega)]
      obtain ⟨b, hb1, hb2⟩ := cpLen_lead last hl
      have hget : (init.flatten ++ last ++ post)[init.flatten.length]? = some b := by
        rw [List.append_assoc, List.getElem?_append_right (Nat.le_refl _), Nat.sub_self, List.getElem?_append_left hp]
        exact hb1
      simp only [hget, hb2]
      have hc : ((init.flatten ++ last ++ post).drop init.flatten.length).take last.length = last := by
        rw [List.append_assoc, List.drop_left' rfl, List.take_left' rfl]
      rw [hc, memberCp_iff cs hcs hz last hl]
      simp only [List.reverse_append, List.reverse_cons, List.reverse_nil, List.nil_append, List.singleton_append,
        List.dropWhile_cons]
      by_cases hm : cpMember cs last = true
      · simp only [hm, if_true]
        have : init.flatten.length + last.length - last.length = init.flatten.length := by omega
        rw [this]
        have := ih init hinit (last ++ post) (by simp only [List.length_append, List.length_cons, List.length_nil] at hf; omega)
        rw [← List.append_assoc] at this
        exact this
      · simp [hm]

end Gpc.Str

namespace Gpc.Str
open Gpc.Utf8 (IsCp)

/-- code point level trimming: drop member code points from the chosen ends -/
def trimCpSpec (cs : List Bytes) (left right : Bool) (hs : List Bytes) : List Bytes :=
  let a := if left then hs.dropWhile (cpMember cs) else hs
  if right then (a.reverse.dropWhile (cpMember cs)).reverse else a

theorem flatten_takeWhile_dropWhile (p : Bytes → Bool) (hs : List Bytes) :
    hs.flatten = (hs.takeWhile p).flatten ++ (hs.dropWhile p).flatten := by
  rw [← List.flatten_append, List.takeWhile_append_dropWhile]

theorem flatten_rev_split (p : Bytes → Bool) (hs : List Bytes) :
    hs.flatten = ((hs.reverse.dropWhile p).reverse).flatten ++ ((hs.reverse.takeWhile p).reverse).flatten := by
  have h1 : hs.reverse = hs.reverse.takeWhile p ++ hs.reverse.dropWhile p := (List.takeWhile_append_dropWhile).symm
  have h2 := congrArg List.reverse h1
  rw [List.reverse_reverse, List.reverse_append] at h2
  rw [← List.flatten_append, ← h2]

theorem length_le_flatten (l : List Bytes) (hl : ∀ x ∈ l, IsCp x) : l.length ≤ l.flatten.length := by
  induction l with
  | nil => simp
  | cons a t ih =>
    have := (hl a List.mem_cons_self).length_pos
    have := ih (fun x hx => hl x (List.mem_cons_of_mem _ hx))
    simp only [List.length_cons, List.flatten_cons, List.length_append]; omega

theorem mem_dropWhile' (p : Bytes → Bool) (hs : List Bytes) (x : Bytes) (h : x ∈ hs.dropWhile p) : x ∈ hs := by
  have := List.takeWhile_append_dropWhile (p := p) (l := hs)
  rw [← this]; exact List.mem_append_right _ h

/-- right trim on a buffer whose first `hs.flatten.length` bytes are the code points `hs` -/
theorem right_part (cs : List Bytes) (hcs : ∀ x ∈ cs, IsCp x) (hz : ∀ x ∈ cs, (0 : UInt8) ∉ x)
    (b1 : Bytes) (hs1 : List Bytes) (hhs1 : ∀ x ∈ hs1, IsCp x) (hb1 : b1.take hs1.flatten.length = hs1.flatten) (right : Bool) :
    let len2 := if right then trailingTrim cs.flatten (hs1.flatten.length + 1) (b1.take hs1.flatten.length) hs1.flatten.length
                else hs1.flatten.length
    b1.take len2 = (if right then (hs1.reverse.dropWhile (cpMember cs)).reverse else hs1).flatten ∧ len2 ≤ hs1.flatten.length := by
  cases right with
  | false => simp only [Bool.false_eq_true, if_false]; exact ⟨hb1, Nat.le_refl _⟩
  | true =>
    simp only [if_true]
    have ht := trailingTrim_spec cs hcs hz hs1 hhs1 [] (hs1.flatten.length + 1)
      (by have := length_le_flatten hs1 hhs1; omega)
    simp only [List.append_nil] at ht
    rw [hb1, ht]
    have hsplit := flatten_rev_split (cpMember cs) hs1
    have hle : ((hs1.reverse.dropWhile (cpMember cs)).reverse).flatten.length ≤ hs1.flatten.length := by
      have := congrArg List.length hsplit
      simp only [List.length_append] at this; omega
    refine ⟨?_, hle⟩
    have : b1.take ((hs1.reverse.dropWhile (cpMember cs)).reverse).flatten.length
        = (b1.take hs1.flatten.length).take ((hs1.reverse.dropWhile (cpMember cs)).reverse).flatten.length := by
      rw [List.take_take]; congr 1; omega
    rw [this, hb1]
    conv => lhs; rw [hsplit]
    exact List.take_left' rfl

theorem uTrim_spec (cs : List Bytes) (hcs : ∀ x ∈ cs, IsCp x) (hz : ∀ x ∈ cs, (0 : UInt8) ∉ x)
    (buf : Bytes) (hs : List Bytes) (hhs : ∀ x ∈ hs, IsCp x) (hle : hs.flatten.length ≤ buf.length)
    (hcur : buf.take hs.flatten.length = hs.flatten) (left right : Bool) :
    ∃ b l, uTrim buf hs.flatten.length cs.flatten left right = some (b, l) ∧ b.length = buf.length ∧
      b.take l = (trimCpSpec cs left right hs).flatten ∧ l ≤ hs.flatten.length := by
  unfold uTrim
  by_cases h0 : hs.flatten.length = 0
  · simp only [h0, if_true]
    have : hs = [] := by
      cases hs with
      | nil => rfl
      | cons a t =>
        have := (hhs a List.mem_cons_self).length_pos
        simp only [List.flatten_cons, List.length_append] at h0; omega
    subst this
    exact ⟨buf, 0, rfl, rfl, by cases left <;> cases right <;> simp [trimCpSpec], Nat.le_refl _⟩
  · simp only [h0, if_false, hcur]
    cases left with
    | false =>
      simp only [Bool.false_eq_true, if_false, false_and, Nat.sub_zero]
      obtain ⟨r1, r2⟩ := right_part cs hcs hz buf hs hhs hcur right
      exact ⟨_, _, rfl, rfl, by simp only [trimCpSpec, Bool.false_eq_true, if_false]; exact r1, r2⟩
    | true =>
      simp only [if_true, true_and]
      rw [leadingMembers_spec cs hcs hz hs hhs _ (by have := length_le_flatten hs hhs; omega)]
      have hsplit := flatten_takeWhile_dropWhile (cpMember cs) hs
      have hlsplit : hs.flatten.length = (hs.takeWhile (cpMember cs)).flatten.length + (hs.dropWhile (cpMember cs)).flatten.length := by
        have := congrArg List.length hsplit
        simpa only [List.length_append] using this
      by_cases hall : (hs.takeWhile (cpMember cs)).flatten.length ≥ hs.flatten.length
      · -- everything is trimmed
        simp only [hall, if_true]
        have hd0 : (hs.dropWhile (cpMember cs)).flatten.length = 0 := by omega
        have hdn : hs.dropWhile (cpMember cs) = [] := by
          cases hd : hs.dropWhile (cpMember cs) with
          | nil => rfl
          | cons a t =>
            have ha : IsCp a := hhs a (mem_dropWhile' _ hs a (by rw [hd]; exact List.mem_cons_self))
            have := ha.length_pos
            rw [hd] at hd0; simp only [List.flatten_cons, List.length_append] at hd0; omega
        refine ⟨buf, 0, rfl, rfl, ?_, Nat.zero_le _⟩
        simp only [trimCpSpec, if_true, hdn]; cases right <;> simp
      · simp only [hall, if_false]
        have hp : (hs.takeWhile (cpMember cs)).flatten.length ≤ hs.flatten.length := by omega
        rw [Gpc.Arr.memmove_some _ _ _ _ (by omega) (by omega)]
        simp only []
        have hl1 := Gpc.Arr.memmove_length buf 0 (hs.takeWhile (cpMember cs)).flatten.length
          (hs.flatten.length - (hs.takeWhile (cpMember cs)).flatten.length) (by omega) (by omega)
        have hlen1 : hs.flatten.length - (hs.takeWhile (cpMember cs)).flatten.length = (hs.dropWhile (cpMember cs)).flatten.length := by omega
        have hb1 : (buf.take 0 ++ (buf.drop (hs.takeWhile (cpMember cs)).flatten.length).take
              (hs.flatten.length - (hs.takeWhile (cpMember cs)).flatten.length) ++
              buf.drop (0 + (hs.flatten.length - (hs.takeWhile (cpMember cs)).flatten.length))).take
              (hs.dropWhile (cpMember cs)).flatten.length = (hs.dropWhile (cpMember cs)).flatten := by
          rw [← hlen1, slice_self_bytes buf _ _ hp hle, ← List.drop_take, hcur]
          conv => lhs; rw [hsplit]
          exact List.drop_left' rfl
        rw [hlen1] at hl1 hb1 ⊢
        obtain ⟨r1, r2⟩ := right_part cs hcs hz _ (hs.dropWhile (cpMember cs))
          (fun x hx => hhs x (mem_dropWhile' _ hs x hx)) hb1 right
        exact ⟨_, _, rfl, hl1, by simp only [trimCpSpec, if_true]; exact r1, by omega⟩

/-- UTF-8 trim: for a valid UTF-8 string (the concatenation of the code points `hs`) and a set
given by the code points `cs`, the result is the concatenation of the trimmed code point list -/
theorem trimUtf8_spec (cs : List Bytes) (hcs : ∀ x ∈ cs, IsCp x) (hz : ∀ x ∈ cs, (0 : UInt8) ∉ x)
    (s : Str) (h : Inv s) (hs : List Bytes) (hhs : ∀ x ∈ hs, IsCp x) (hb : bytes s = hs.flatten)
    (left right : Bool) :
    ∃ s', trimUtf8 s cs.flatten left right = some s' ∧ Inv s' ∧ bytes s' = (trimCpSpec cs left right hs).flatten := by
  have hbl : (bytes s).length = s.length := by
    simp only [bytes, List.length_take, h.size]; have := h.len_le; omega
  have hlen : s.length = hs.flatten.length := by rw [← hbl, hb]
  unfold trimUtf8
  by_cases h0 : s.length = 0
  · simp only [h0, if_true]
    refine ⟨s, rfl, h, ?_⟩
    have : hs = [] := by
      cases hs with
      | nil => rfl
      | cons a t => have := (hhs a List.mem_cons_self).length_pos; simp only [List.flatten_cons, List.length_append] at hlen; omega
    subst this
    rw [hb]; cases left <;> cases right <;> simp [trimCpSpec]
  · simp only [h0, if_false]
    have hle : hs.flatten.length ≤ s.data.length := by rw [h.size, ← hlen]; have := h.len_le; omega
    obtain ⟨b, l, r1, r2, r3, r4⟩ := uTrim_spec cs hcs hz s.data hs hhs hle (by rw [← hlen]; exact hb) left right
    rw [hlen, r1]
    refine ⟨_, rfl, ⟨by simp only []; have := h.len_le; omega, by simp only []; rw [r2, h.size]⟩, ?_⟩
    simp only [bytes]; exact r3

end Gpc.Str

namespace Gpc.Str
open Gpc.Utf8 (IsCp)

/-! ### split -/

/-- code point level split of a list that starts at a token: the maximal run of non-separators,
then skip the separator run, repeat -/
def splitRuns (m : Bytes → Bool) : (fuel : Nat) → List Bytes → List (List Bytes)
  | 0, _ => []
  | _ + 1, [] => []
  | fuel + 1, x :: a =>
    ((x :: a).takeWhile fun y => !m y) :: splitRuns m fuel (((x :: a).dropWhile fun y => !m y).dropWhile m)

/-- `gp_str_split` on code points: maximal runs of non-separator code points -/
def splitCpSpec (m : Bytes → Bool) (hs : List Bytes) : List (List Bytes) := splitRuns m (hs.length + 1) (hs.dropWhile m)

theorem findIdx_split (p : Bytes → Bool) (hs : List Bytes) :
    match hs.findIdx? p with
    | none => hs.takeWhile (fun x => !p x) = hs ∧ hs.dropWhile (fun x => !p x) = []
    | some j => hs.take j = hs.takeWhile (fun x => !p x) ∧ hs.drop j = hs.dropWhile (fun x => !p x) ∧ j < hs.length := by
  induction hs with
  | nil => simp
  | cons a t ih =>
    simp only [List.findIdx?_cons]
    by_cases hp : p a = true
    · simp [hp]
    · have hp' : p a = false := by simpa using hp
      simp only [hp', Bool.false_eq_true, if_false]
      cases hf : List.findIdx? p t with
      | none =>
        rw [hf] at ih
        simp only [Option.map_none, List.takeWhile_cons, List.dropWhile_cons, hp', Bool.not_false, if_true]
        exact ⟨by rw [ih.1], ih.2⟩
      | some j =>
        rw [hf] at ih
        simp only [Option.map_some, List.take_succ_cons, List.drop_succ_cons, List.takeWhile_cons, List.dropWhile_cons,
          hp', Bool.not_false, if_true, List.length_cons]
        exact ⟨by rw [ih.1], ih.2.1, by omega⟩

theorem head_dropWhile_false (p : Bytes → Bool) (l : List Bytes) (x : Bytes) (t : List Bytes)
    (h : l.dropWhile p = x :: t) : p x = false := by
  induction l with
  | nil => simp at h
  | cons a r ih =>
    simp only [List.dropWhile_cons] at h
    split at h
    · exact ih h
    · rename_i hp
      injection h with h1 _
      subst h1; simpa using hp

theorem drop_flatten_take (hs : List Bytes) (j : Nat) :
    hs.flatten.drop (hs.take j).flatten.length = (hs.drop j).flatten := by
  have : hs.flatten = (hs.take j).flatten ++ (hs.drop j).flatten := by rw [← List.flatten_append, List.take_append_drop]
  conv => lhs; rw [this]
  exact List.drop_left' rfl

theorem take_flatten_take (hs : List Bytes) (j : Nat) :
    hs.flatten.take (hs.take j).flatten.length = (hs.take j).flatten := by
  have : hs.flatten = (hs.take j).flatten ++ (hs.drop j).flatten := by rw [← List.flatten_append, List.take_append_drop]
  conv => lhs; rw [this]
  exact List.take_left' rfl

theorem flatten_length_split (hs : List Bytes) (j : Nat) :
    hs.flatten.length = (hs.take j).flatten.length + (hs.drop j).flatten.length := by
  rw [← List.length_append, ← List.flatten_append, List.take_append_drop]

theorem pred_true (cs : List Bytes) : (fun y : Bytes => !(cpMember cs y == true)) = (fun y => !cpMember cs y) := by
  funext y; cases cpMember cs y <;> rfl
theorem pred_false (cs : List Bytes) : (fun y : Bytes => !(cpMember cs y == false)) = (fun y => cpMember cs y) := by
  funext y; cases cpMember cs y <;> rfl

/-- the split loop from a chunk boundary where a token starts -/
theorem splitLoop_spec (cs : List Bytes) (hcs : ∀ x ∈ cs, IsCp x) (hz : ∀ x ∈ cs, (0 : UInt8) ∉ x)
    (fuel : Nat) (s : Bytes) (i : Nat) (x : Bytes) (a : List Bytes) (ha : ∀ y ∈ x :: a, IsCp y)
    (hdrop : s.drop i = (x :: a).flatten) (hlen : i + (x :: a).flatten.length = s.length)
    (hf : (x :: a).length < fuel) :
    splitLoop cs.flatten fuel s i = (splitRuns (cpMember cs) fuel (x :: a)).map List.flatten := by
  induction fuel generalizing i x a with
  | zero => omega
  | succ f ih =>
    have hsl : (x :: a).length < s.length + 1 := by
      have := length_le_flatten (x :: a) ha; omega
    simp only [splitLoop, splitRuns]
    rw [findFirstCp_spec cs hcs hz true (x :: a) ha s i (s.length + 1) hdrop hlen hsl]
    have hsplit := findIdx_split (fun h => cpMember cs h == true) (x :: a)
    rw [pred_true] at hsplit
    cases hfi : List.findIdx? (fun h => cpMember cs h == true) (x :: a) with
    | none =>
      rw [hfi] at hsplit
      simp only [Option.map_none, List.map_cons, hsplit.1, hsplit.2, List.dropWhile_nil, hdrop]
      cases f <;> simp [splitRuns]
    | some j =>
      rw [hfi] at hsplit
      obtain ⟨e1, e2, e3⟩ := hsplit
      simp only [Option.map_some, List.map_cons]
      have hpart : (s.drop i).take (i + ((x :: a).take j).flatten.length - i) = ((x :: a).takeWhile fun y => !cpMember cs y).flatten := by
        have : i + ((x :: a).take j).flatten.length - i = ((x :: a).take j).flatten.length := by omega
        rw [this, hdrop, take_flatten_take, e1]
      rw [hpart]
      congr 1
      have hdrop2 : s.drop (i + ((x :: a).take j).flatten.length) = ((x :: a).drop j).flatten := by
        rw [← List.drop_drop, hdrop, drop_flatten_take]
      have hlen2 : i + ((x :: a).take j).flatten.length + ((x :: a).drop j).flatten.length = s.length := by
        have := flatten_length_split (x :: a) j; omega
      have hb : ∀ y ∈ (x :: a).drop j, IsCp y := fun y hy => ha y (List.mem_of_mem_drop hy)
      have hsl2 : ((x :: a).drop j).length < s.length + 1 := by
        have := length_le_flatten _ hb; omega
      rw [findFirstCp_spec cs hcs hz false ((x :: a).drop j) hb s _ (s.length + 1) hdrop2 hlen2 hsl2]
      have hsplit2 := findIdx_split (fun h => cpMember cs h == false) ((x :: a).drop j)
      rw [pred_false] at hsplit2
      rw [← e2]
      cases hfi2 : List.findIdx? (fun h => cpMember cs h == false) ((x :: a).drop j) with
      | none =>
        rw [hfi2] at hsplit2
        simp only [Option.map_none, hsplit2.2]
        cases f <;> simp [splitRuns]
      | some k =>
        rw [hfi2] at hsplit2
        obtain ⟨q1, q2, q3⟩ := hsplit2
        simp only [Option.map_some]
        rw [← q2]
        cases hrest : ((x :: a).drop j).drop k with
        | nil =>
          have := congrArg List.length hrest
          simp only [List.length_drop, List.length_nil] at this q3; omega
        | cons x' a' =>
          have hb' : ∀ y ∈ x' :: a', IsCp y := fun y hy => hb y (List.mem_of_mem_drop (by rw [hrest]; exact hy))
          have hdrop3 : s.drop (i + ((x :: a).take j).flatten.length + (((x :: a).drop j).take k).flatten.length) = (x' :: a').flatten := by
            rw [← List.drop_drop, hdrop2, drop_flatten_take, hrest]
          have hlen3 : i + ((x :: a).take j).flatten.length + (((x :: a).drop j).take k).flatten.length + (x' :: a').flatten.length = s.length := by
            have := flatten_length_split ((x :: a).drop j) k
            rw [hrest] at this; omega
          have hkpos : 0 < k := by
            -- chunk `j` is a separator (first member), so the first non-member after it is later
            apply Nat.pos_of_ne_zero; intro hk0; subst hk0
            cases hdj : (x :: a).drop j with
            | nil => rw [hdj] at hrest; simp at hrest
            | cons b0 bt =>
              have hm : (fun y => !cpMember cs y) b0 = false := head_dropWhile_false _ (x :: a) b0 bt (by rw [← e2, hdj])
              have hm' : cpMember cs b0 = true := by simpa using hm
              rw [hdj] at q1
              simp [List.takeWhile_cons, hm'] at q1
          exact ih _ x' a' hb' hdrop3 hlen3 (by
            have h1 := congrArg List.length hrest
            simp only [List.length_drop, List.length_cons] at h1 hf ⊢
            omega)

end Gpc.Str

namespace Gpc.Str
open Gpc.Utf8 (IsCp)

theorem length_dropWhile_le' (p : Bytes → Bool) (l : List Bytes) : (l.dropWhile p).length ≤ l.length := by
  have := congrArg List.length (List.takeWhile_append_dropWhile (p := p) (l := l))
  simp only [List.length_append] at this; omega

theorem runs_rest_shorter (m : Bytes → Bool) (x : Bytes) (a : List Bytes) :
    (((x :: a).dropWhile fun y => !m y).dropWhile m).length ≤ a.length := by
  by_cases hm : m x = true
  · have h1 : ((x :: a).dropWhile fun y => !m y) = x :: a := by simp [List.dropWhile_cons, hm]
    rw [h1]
    simp only [List.dropWhile_cons, hm, if_true]
    exact length_dropWhile_le' m a
  · have hm' : m x = false := by simpa using hm
    have h1 : ((x :: a).dropWhile fun y => !m y) = a.dropWhile fun y => !m y := by simp [List.dropWhile_cons, hm']
    rw [h1]
    exact Nat.le_trans (length_dropWhile_le' m _) (length_dropWhile_le' _ a)

theorem splitRuns_fuel (m : Bytes → Bool) (f1 f2 : Nat) (l : List Bytes) (h1 : l.length < f1) (h2 : l.length < f2) :
    splitRuns m f1 l = splitRuns m f2 l := by
  induction f1 generalizing f2 l with
  | zero => omega
  | succ g ih =>
    cases f2 with
    | zero => omega
    | succ g2 =>
      cases l with
      | nil => rfl
      | cons x a =>
        simp only [splitRuns]
        congr 1
        have := runs_rest_shorter m x a
        simp only [List.length_cons] at h1 h2
        exact ih g2 _ (by omega) (by omega)

/-- `gp_str_split` of valid UTF-8 text (the code points `hs`) with the separator set `cs` returns
the maximal runs of non-separator code points, in order -/
theorem split_spec (cs : List Bytes) (hcs : ∀ x ∈ cs, IsCp x) (hz : ∀ x ∈ cs, (0 : UInt8) ∉ x)
    (hs : List Bytes) (hhs : ∀ x ∈ hs, IsCp x) :
    split hs.flatten cs.flatten = (splitCpSpec (cpMember cs) hs).map List.flatten := by
  unfold split splitCpSpec
  have hsl : hs.length < hs.flatten.length + 1 := by have := length_le_flatten hs hhs; omega
  rw [findFirstCp_spec cs hcs hz false hs hhs hs.flatten 0 (hs.flatten.length + 1) (by simp) (by simp) hsl]
  have hsplit := findIdx_split (fun h => cpMember cs h == false) hs
  rw [pred_false] at hsplit
  cases hfi : List.findIdx? (fun h => cpMember cs h == false) hs with
  | none =>
    rw [hfi] at hsplit
    simp only [Option.map_none, hsplit.2]
    simp [splitRuns]
  | some k =>
    rw [hfi] at hsplit
    obtain ⟨q1, q2, q3⟩ := hsplit
    simp only [Option.map_some, Nat.zero_add]
    rw [← q2]
    cases hrest : hs.drop k with
    | nil =>
      have := congrArg List.length hrest
      simp only [List.length_drop, List.length_nil] at this; omega
    | cons x a =>
      have hb : ∀ y ∈ x :: a, IsCp y := fun y hy => hhs y (List.mem_of_mem_drop (by rw [hrest]; exact hy))
      have hl := flatten_length_split hs k
      rw [hrest] at hl
      rw [splitLoop_spec cs hcs hz (hs.flatten.length + 1) hs.flatten _ x a hb
        (by rw [drop_flatten_take, hrest]) (by omega)
        (by have := length_le_flatten (x :: a) hb; omega)]
      congr 1
      apply splitRuns_fuel
      · have := length_le_flatten (x :: a) hb; omega
      · have := congrArg List.length hrest
        simp only [List.length_drop] at this; omega

end Gpc.Str
