import Gpc.Proofs.FloatSpecWF
/-! The digits of the specification's fixed notation, read as a number, are the rounded scaled value. -/
namespace Gpc.Printf

theorem digitChar_toNat (d : Nat) (h : d < 10) : (digitChar false d).toNat = 48 + d := by
  unfold digitChar
  rw [if_pos h, UInt8.toNat_ofNat']; omega

theorem valueOf_natDigits : ∀ n, valueOf (natDigits 10 false n) = n := by
  intro n
  induction n using Nat.strongRecOn with
  | _ n ih =>
    rw [natDigits]
    split
    · rename_i h
      simp only [valueOf, List.foldl_cons, List.foldl_nil, Nat.zero_mul, Nat.zero_add]
      rw [digitChar_toNat n (by omega)]; omega
    · rename_i h
      rw [valueOf_append_singleton, ih (n / 10) (by omega), digitChar_toNat (n % 10) (by omega)]
      omega

theorem valueOf_zeros_append (k : Nat) (ds : Bytes) : valueOf (List.replicate k 48 ++ ds) = valueOf ds := by
  induction k with
  | zero => simp
  | succ k ih =>
    rw [List.replicate_succ, List.cons_append]
    have : ∀ l : Bytes, valueOf (48 :: l) = valueOf l := by
      intro l; simp [valueOf]
    rw [this, ih]

theorem filter_ne_point_digits (ds : Bytes) (h : IsDigits ds) : ds.filter (· ≠ 46) = ds := by
  rw [List.filter_eq_self]
  intro b hb
  simp only [decide_eq_true_eq]
  exact digit_ne b (h b hb) 46 (by decide)

/-- **the text of `%f` denotes the rounded value**: with the point removed, the digits of the fixed
notation are the decimal notation of `scaled m e prec` — the value `m·2^e·10^prec` rounded to the nearest
integer, ties to even (`roundDiv_nearest_even`) — and exactly `prec` of them stand after the point -/
theorem fixedText_value (m : Nat) (e : Int) (prec : Nat) (alt : Bool) :
    valueOf ((fixedText m e prec alt).filter (· ≠ 46)) = scaled m e prec ∧
    (0 < prec → ((fixedText m e prec alt).dropWhile (· ≠ 46)).length = prec + 1) := by
  unfold fixedText
  simp only
  generalize scaled m e ↑prec = n
  by_cases hp : prec > 0
  · rw [if_pos hp]
    generalize hds : List.replicate (prec + 1 - (natDigits 10 false n).length) 48 ++ natDigits 10 false n = ds
    have hdig : IsDigits ds := hds ▸ isDigits_append (isDigits_zeros _) (natDigits_isDigits n)
    have hval : valueOf ds = n := by rw [← hds, valueOf_zeros_append, valueOf_natDigits]
    have hlen : ds.length = (prec + 1 - (natDigits 10 false n).length) + (natDigits 10 false n).length := by
      rw [← hds, List.length_append, List.length_replicate]
    refine ⟨?_, fun _ => ?_⟩
    · rw [List.filter_append, List.filter_append, filter_ne_point_digits _ (hdig.take _),
        filter_ne_point_digits _ (hdig.drop _)]
      simp only [List.filter_cons, List.filter_nil]
      simp [List.take_append_drop, hval]
    · rw [List.append_assoc, List.singleton_append,
        dropWhile_append_stop _ _ 46 _ (fun b hb => by
          simp only [decide_eq_true_eq]; exact digit_ne b (hdig.take _ b hb) 46 (by decide)) (by decide)]
      simp only [List.length_cons, List.length_drop]
      omega
  · rw [if_neg hp]
    refine ⟨?_, fun h => absurd h hp⟩
    cases alt
    · simp only [Bool.false_eq_true, if_false, List.append_nil]
      rw [filter_ne_point_digits _ (natDigits_isDigits n)]; exact valueOf_natDigits n
    · simp only [if_true]
      have h46 : ([46] : Bytes).filter (· ≠ 46) = [] := by decide
      rw [List.filter_append, filter_ne_point_digits _ (natDigits_isDigits n), h46, List.append_nil]
      exact valueOf_natDigits n

theorem scaled_nonneg_prec (m : Nat) (e : Int) (prec : Nat) :
    scaled m e prec = roundDiv (m * (if e ≥ 0 then 2 ^ e.toNat else 1) * 10 ^ prec) (if e ≥ 0 then 1 else 2 ^ (-e).toNat) := by
  unfold scaled
  simp

/-- numerator and denominator of the exact value `m · 2^e · 10^p` -/
def scaledNum (m : Nat) (e p : Int) : Nat := m * (if e ≥ 0 then 2 ^ e.toNat else 1) * (if p ≥ 0 then 10 ^ p.toNat else 1)
def scaledDen (e p : Int) : Nat := (if e ≥ 0 then 1 else 2 ^ (-e).toNat) * (if p ≥ 0 then 1 else 10 ^ (-p).toNat)

theorem scaled_eq (m : Nat) (e p : Int) : scaled m e p = roundDiv (scaledNum m e p) (scaledDen e p) := rfl

theorem scaledDen_pos (e p : Int) : 0 < scaledDen e p := by
  unfold scaledDen
  apply Nat.mul_pos
  · split
    · omega
    · exact Nat.pow_pos (by omega)
  · split
    · omega
    · exact Nat.pow_pos (by omega)

/-- the significant digits of `%e` spell the value scaled to the chosen exponent and rounded -/
theorem expParts_value (m : Nat) (e : Int) (prec : Nat) (hm : m ≠ 0) :
    valueOf (expParts m e prec).1 = scaled m e ((prec : Int) - (expParts m e prec).2) := by
  unfold expParts
  simp only [hm, if_false]
  split <;> simp only [valueOf_natDigits]

end Gpc.Printf
