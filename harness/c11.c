/* C11 driver: simple case conversion of strings and case-insensitive equality */
#include <gpc/string.h>
#include <gpc/memory.h>
#include "proto.h"
uint32_t gp_u32_to_upper(uint32_t); uint32_t gp_u32_to_lower(uint32_t); uint32_t gp_u32_to_title(uint32_t);
int main(void)
{
    setvbuf(stdout, NULL, _IOFBF, 1 << 16);
    while (vp_next()) {
        if (vp_ntok < 3 || strcmp(vp_tok[0], "case")) { puts("bad-op"); fflush(stdout); continue; }
        char** t = vp_tok + 1; int n = vp_ntok - 1;
        if (n == 2 && (!strcmp(t[0], "upper") || !strcmp(t[0], "lower") || !strcmp(t[0], "title"))) {
            size_t l; uint8_t* b = vp_hex(t[1], &l);
            GPString s = gp_str_new(gp_heap, l & 7, ""); gp_str_copy(&s, b, l);
            if (t[0][0] == 'u') gp_str_to_upper(&s); else if (t[0][0] == 'l') gp_str_to_lower(&s); else gp_str_to_title(&s);
            vp_puthex(s, gp_str_length(s)); puts(""); (void)gp_cstr(s);
            gp_str_delete(s); free(b);
        } else if (n == 3 && !strcmp(t[0], "eqc")) {
            size_t l1, l2; uint8_t* a = vp_hex(t[1], &l1); uint8_t* b = vp_hex(t[2], &l2);
            GPString s = gp_str_new(gp_heap, l1, ""); gp_str_copy(&s, a, l1);
            printf("%d\n", gp_str_equal_case(s, b, l2));
            gp_str_delete(s); free(a); free(b);
        } else if (n == 2 && !strcmp(t[0], "cp")) {
            uint32_t c = (uint32_t)strtoul(t[1], NULL, 10);
            printf("%u %u %u -\n", gp_u32_to_upper(c), gp_u32_to_lower(c), gp_u32_to_title(c));
        } else puts("bad-op");
        fflush(stdout);
    }
    return 0;
}
