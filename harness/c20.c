/* C20 driver: numeric helpers.  Links against the freshly built library objects. */
#include <gpc/utils.h>
#include <gpc/hashmap.h>
#include "proto.h"

static void put_u128(GPUint128 v)
{
    /* decimal print of a 128-bit value */
    unsigned __int128 x = ((unsigned __int128)*gp_u128_hi(&v) << 64) | *gp_u128_lo(&v);
    char buf[64]; int i = 63; buf[i] = 0;
    if (x == 0) buf[--i] = '0';
    while (x) { buf[--i] = (char)('0' + (int)(x % 10)); x /= 10; }
    puts(buf + i);
}

int main(void)
{
    setvbuf(stdout, NULL, _IOLBF, 0);
    while (vp_next()) {
        if (vp_ntok < 2 || strcmp(vp_tok[0], "num") != 0) { puts("bad-op"); continue; }
        char** t = vp_tok + 1; int n = vp_ntok - 1;
        if (!strcmp(t[0], "fnv32") && n == 2) {
            size_t len; uint8_t* b = vp_hex(t[1], &len);
            printf("%" PRIu32 "\n", gp_bytes_hash32(b, len)); free(b);
        } else if (!strcmp(t[0], "fnv64") && n == 2) {
            size_t len; uint8_t* b = vp_hex(t[1], &len);
            printf("%" PRIu64 "\n", gp_bytes_hash64(b, len)); free(b);
        } else if (!strcmp(t[0], "fnv128") && n == 2) {
            size_t len; uint8_t* b = vp_hex(t[1], &len);
            put_u128(gp_bytes_hash128(b, len)); free(b);
        } else if (!strcmp(t[0], "np2_32") && n == 2) {
            printf("%" PRIu32 "\n", gp_next_power_of_2_32((uint32_t)strtoull(t[1], NULL, 10)));
        } else if (!strcmp(t[0], "np2_64") && n == 2) {
            printf("%" PRIu64 "\n", gp_next_power_of_2_64(strtoull(t[1], NULL, 10)));
        } else if (!strcmp(t[0], "round") && n == 3) {
            printf("%" PRIu64 "\n", (uint64_t)gp_round_to_aligned(strtoull(t[1], NULL, 10), strtoull(t[2], NULL, 10)));
        } else if (!strcmp(t[0], "cb") && n == 4) {
            size_t s = 0, e = 0, l = strtoull(t[3], NULL, 10);
            size_t *ps = NULL, *pe = NULL;
            if (strcmp(t[1], "-")) { s = strtoull(t[1], NULL, 10); ps = &s; }
            if (strcmp(t[2], "-")) { e = strtoull(t[2], NULL, 10); pe = &e; }
            bool ok = gp_check_bounds(ps, pe, l);
            printf("%d ", ok);
            if (ps) printf("%zu ", s); else printf("- ");
            if (pe) printf("%zu\n", e); else printf("-\n");
        } else if (!strcmp(t[0], "rand") && n == 3) {
            GPRandomState st = gp_new_random_state(strtoull(t[1], NULL, 10));
            unsigned long k = strtoul(t[2], NULL, 10);
            for (unsigned long i = 0; i < k; i++) printf("%s%" PRIu32, i ? " " : "", gp_random(&st));
            puts("");
        } else if (!strcmp(t[0], "frand") && n == 3) {
            /* gp_frandom: OUT(x) marks a value outside [0,1) (the property); otherwise the numerator f * 2^32 when
             * it is an integer (what the model predicts), else the value itself (a correspondence difference only) */
            GPRandomState st = gp_new_random_state(strtoull(t[1], NULL, 10));
            unsigned long k = strtoul(t[2], NULL, 10);
            for (unsigned long i = 0; i < k; i++) {
                double f = gp_frandom(&st);
                double sc = f * 4294967296.0;
                if (!(f >= 0.0 && f < 1.0)) printf("%sOUT(%a)", i ? " " : "", f);
                else if (sc != (double)(uint64_t)sc) printf("%sx(%a)", i ? " " : "", f);
                else printf("%s%" PRIu64, i ? " " : "", (uint64_t)sc);
            }
            puts("");
        } else if (!strcmp(t[0], "rr") && n == 5) {
            GPRandomState st = gp_new_random_state(strtoull(t[1], NULL, 10));
            int32_t lo = (int32_t)strtoll(t[2], NULL, 10), hi = (int32_t)strtoll(t[3], NULL, 10);
            unsigned long k = strtoul(t[4], NULL, 10);
            for (unsigned long i = 0; i < k; i++) printf("%s%" PRId32, i ? " " : "", gp_random_range(&st, lo, hi));
            puts("");
        } else puts("bad-op");
    }
    return 0;
}
