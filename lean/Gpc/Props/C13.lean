import Gpc.Model.Compare
import Gpc.Spec.CaseFull
import Gpc.Ucd.CaseFull
import Gpc.Props.C11
/-!
# C13 — comparison is a consistent total order; sorting returns a sorted permutation
-/
namespace Gpc.Compare
open Gpc.CaseFull (Loc foldFull fold1)
open Gpc.Generated

/-! ## the code point comparison is a total order -/

theorem cmpCps_refl (a : List Nat) : cmpCps a a = 0 := by
  induction a with
  | nil => rfl
  | cons x xs ih => simp [cmpCps, ih]

/-- **zero exactly for equal strings** -/
theorem cmpCps_zero_iff (a b : List Nat) : cmpCps a b = 0 ↔ a = b := by
  induction a generalizing b with
  | nil => cases b <;> simp [cmpCps]
  | cons x xs ih =>
    cases b with
    | nil => simp [cmpCps]
    | cons y ys =>
      simp only [cmpCps]
      by_cases h : x = y
      · subst h; simp [ih]
      · rw [if_neg h]; simp only [List.cons.injEq, h, false_and, iff_false]; omega

/-- **antisymmetry of the sign** -/
theorem cmpCps_antisymm (a b : List Nat) : sgn (cmpCps a b) = - sgn (cmpCps b a) := by
  induction a generalizing b with
  | nil => cases b <;> simp [cmpCps, sgn]
  | cons x xs ih =>
    cases b with
    | nil => simp [cmpCps, sgn]
    | cons y ys =>
      simp only [cmpCps]
      by_cases h : x = y
      · subst h; simp [ih]
      · have h' : ¬ y = x := fun e => h e.symm
        rw [if_neg h, if_neg h']
        unfold sgn
        split <;> split <;> (try split) <;> (try split) <;> omega

theorem cmpCps_neg_cases (a b : List Nat) :
    cmpCps a b < 0 ↔ (∃ p x y s t, a = p ++ x :: s ∧ b = p ++ y :: t ∧ x < y) ∨ (∃ y t, b = a ++ y :: t) := by
  induction a generalizing b with
  | nil =>
    cases b with
    | nil => simp [cmpCps]
    | cons y ys => simp [cmpCps]
  | cons x xs ih =>
    cases b with
    | nil => simp [cmpCps]
    | cons y ys =>
      simp only [cmpCps]
      by_cases h : x = y
      · subst h
        rw [if_pos rfl, ih]
        constructor
        · rintro (⟨p, x', y', s, t, ha, hb, hlt⟩ | ⟨y', t, hb⟩)
          · exact Or.inl ⟨x :: p, x', y', s, t, by simp [ha], by simp [hb], hlt⟩
          · exact Or.inr ⟨y', t, by simp [hb]⟩
        · rintro (⟨p, x', y', s, t, ha, hb, hlt⟩ | ⟨y', t, hb⟩)
          · cases p with
            | nil => simp at ha hb; omega
            | cons q p => simp at ha hb; exact Or.inl ⟨p, x', y', s, t, ha.2, hb.2, hlt⟩
          · simp at hb; exact Or.inr ⟨y', t, hb⟩
      · rw [if_neg h]
        constructor
        · intro hlt; exact Or.inl ⟨[], x, y, xs, ys, rfl, rfl, by omega⟩
        · rintro (⟨p, x', y', s, t, ha, hb, hlt⟩ | ⟨y', t, hb⟩)
          · cases p with
            | nil => simp at ha hb; omega
            | cons q p => simp at ha hb; omega
          · simp at hb; omega

/-- **transitivity** (of "not greater") -/
theorem cmpCps_trans (a b c : List Nat) (h1 : cmpCps a b ≤ 0) (h2 : cmpCps b c ≤ 0) : cmpCps a c ≤ 0 := by
  induction a generalizing b c with
  | nil => cases c <;> simp [cmpCps]
  | cons x xs ih =>
    cases b with
    | nil => simp [cmpCps] at h1
    | cons y ys =>
      cases c with
      | nil => simp [cmpCps] at h2
      | cons z zs =>
        simp only [cmpCps] at h1 h2 ⊢
        by_cases hxy : x = y
        · subst hxy
          rw [if_pos rfl] at h1
          by_cases hxz : x = z
          · subst hxz; rw [if_pos rfl] at h2 ⊢; exact ih ys zs h1 h2
          · rw [if_neg hxz] at h2 ⊢; exact h2
        · rw [if_neg hxy] at h1
          by_cases hyz : y = z
          · subst hyz; rw [if_neg hxy]; exact h1
          · rw [if_neg hyz] at h2
            have : ¬ x = z := by omega
            rw [if_neg this]; omega

/-- totality -/
theorem cmpCps_total (a b : List Nat) : cmpCps a b ≤ 0 ∨ cmpCps b a ≤ 0 := by
  have := cmpCps_antisymm a b
  unfold sgn at this
  split at this <;> split at this <;> (try split at this) <;> (try split at this) <;> omega

theorem sgn_zero_iff (x : Int) : sgn x = 0 ↔ x = 0 := by unfold sgn; split <;> (try split) <;> omega
theorem sgn_neg (x : Int) : sgn (-x) = - sgn x := by unfold sgn; split <;> split <;> (try split) <;> (try split) <;> omega

/-! ## `gp_str_compare` -/

/-- **the reverse flag negates** -/
theorem compare_reverse (fold collate : Bool) (loc : Loc) (a b : List Nat) :
    compare fold collate true loc a b = - compare fold collate false loc a b := by
  simp [compare]

/-- plain comparison: zero exactly for equal strings, antisymmetric -/
theorem compare_plain_zero_iff (loc : Loc) (a b : List Nat) : compare false false false loc a b = 0 ↔ a = b := by
  simp [compare, sgn_zero_iff, cmpCps_zero_iff]

theorem compare_antisymm (fold collate reverse : Bool) (loc : Loc) (a b : List Nat) :
    compare fold collate reverse loc a b = - compare fold collate reverse loc b a := by
  have key : ∀ x y : List Nat, sgn (cmpCps x y) = - sgn (cmpCps y x) := cmpCps_antisymm
  unfold compare
  cases fold <;> cases collate <;> cases reverse <;> simp only [Bool.not_true, Bool.not_false, Bool.and_true, Bool.and_false,
    Bool.true_and, Bool.false_and, Bool.false_eq_true, if_true, if_false] <;>
    first
      | exact key _ _
      | (congr 1; exact key _ _)

/-- the regenerated folding tables are Unicode's full case folding (C + F, Turkic option T) -/
theorem foldN_eq : implFoldN = Gpc.Ucd.fullFoldN := by decide +kernel
theorem foldTr_eq : implFoldTr = Gpc.Ucd.fullFoldTr := by decide +kernel

/-- **case-folding comparison is zero exactly when the foldings are equal** -/
theorem compare_fold_zero_iff (loc : Loc) (a b : List Nat) :
    compare true false false loc a b = 0 ↔ foldFull loc a = foldFull loc b := by
  simp [compare, sgn_zero_iff, cmpCps_zero_iff]

theorem fold1_eq (loc : Loc) (c : Nat) : fold1 loc c = Gpc.SpecCase.fold1 loc c := by
  cases loc <;> simp only [fold1, Gpc.SpecCase.fold1, foldN_eq, foldTr_eq, Gpc.SpecCase.simpleLower] <;>
    rw [Gpc.CaseMap.toLower_eq_ucd] <;> rfl

theorem foldFull_eq (loc : Loc) (s : List Nat) : foldFull loc s = Gpc.SpecCase.toFold loc s := by
  unfold foldFull Gpc.SpecCase.toFold
  rw [show fold1 loc = Gpc.SpecCase.fold1 loc from funext (fold1_eq loc)]

/-- **C13, case folding.**  `gp_str_compare(.., GP_CASE_FOLD, locale)` is zero exactly when the Unicode
full case foldings (with the Turkic mappings under tr / az) of the two strings are equal — for all
strings, including ones containing U+0000. -/
theorem compare_fold_zero_iff_spec (loc : Loc) (a b : List Nat) :
    compare true false false loc a b = 0 ↔ Gpc.SpecCase.toFold loc a = Gpc.SpecCase.toFold loc b := by
  rw [compare_fold_zero_iff, foldFull_eq, foldFull_eq]

/-! ## sorting -/

theorem insertBy_perm {α : Type} (le : α → α → Bool) (x : α) (l : List α) : (insertBy le x l).Perm (x :: l) := by
  induction l with
  | nil => exact List.Perm.refl _
  | cons y ys ih =>
    simp only [insertBy]
    split
    · exact List.Perm.refl _
    · exact (List.Perm.cons y ih).trans (List.Perm.swap x y ys)

/-- the result of sorting is a permutation of the input -/
theorem sortBy_perm {α : Type} (le : α → α → Bool) (l : List α) : (sortBy le l).Perm l := by
  induction l with
  | nil => exact List.Perm.refl _
  | cons x xs ih => exact (insertBy_perm le x _).trans (List.Perm.cons x ih)

theorem insertBy_sorted {α : Type} (le : α → α → Bool) (htot : ∀ a b, le a b = true ∨ le b a = true)
    (htr : ∀ a b c, le a b = true → le b c = true → le a c = true) (x : α) (l : List α)
    (h : l.Pairwise (fun a b => le a b = true)) : (insertBy le x l).Pairwise (fun a b => le a b = true) := by
  induction l with
  | nil => simp [insertBy]
  | cons y ys ih =>
    simp only [insertBy]
    rw [List.pairwise_cons] at h
    split
    · rename_i hxy
      rw [List.pairwise_cons]
      refine ⟨fun z hz => ?_, List.pairwise_cons.2 h⟩
      rcases List.mem_cons.1 hz with rfl | hz
      · exact hxy
      · exact htr _ _ _ hxy (h.1 z hz)
    · rename_i hxy
      have hyx : le y x = true := by rcases htot x y with h' | h'; exact absurd h' hxy; exact h'
      rw [List.pairwise_cons]
      refine ⟨fun z hz => ?_, ih h.2⟩
      have := (insertBy_perm le x ys).mem_iff.1 hz
      rcases List.mem_cons.1 this with rfl | hz'
      · exact hyx
      · exact h.1 z hz'

/-- with a total, transitive comparator the result is sorted -/
theorem sortBy_sorted {α : Type} (le : α → α → Bool) (htot : ∀ a b, le a b = true ∨ le b a = true)
    (htr : ∀ a b c, le a b = true → le b c = true → le a c = true) (l : List α) :
    (sortBy le l).Pairwise (fun a b => le a b = true) := by
  induction l with
  | nil => simp [sortBy]
  | cons x xs ih => exact insertBy_sorted le htot htr x _ ih

/-- **C13, the comparators handed to `qsort` are total preorders** (what `qsort` requires), for every
flag combination: comparing by the sort key, reversed or not -/
theorem comparator_total_preorder (fold collate reverse : Bool) (loc : Loc) :
    let le := fun (a b : List Nat) =>
      if reverse then decide (cmpCps (sortKey fold collate loc b) (sortKey fold collate loc a) ≤ 0)
      else decide (cmpCps (sortKey fold collate loc a) (sortKey fold collate loc b) ≤ 0)
    (∀ a b, le a b = true ∨ le b a = true) ∧ (∀ a b c, le a b = true → le b c = true → le a c = true) := by
  intro le
  constructor
  · intro a b
    cases reverse <;> simp only [le, Bool.false_eq_true, if_false, if_true, decide_eq_true_eq]
    · exact cmpCps_total _ _
    · exact (cmpCps_total _ _).symm
  · intro a b c h1 h2
    cases reverse <;> simp only [le, Bool.false_eq_true, if_false, if_true, decide_eq_true_eq] at h1 h2 ⊢
    · exact cmpCps_trans _ _ _ h1 h2
    · exact cmpCps_trans _ _ _ h2 h1

/-- **C13, sorting.**  `gp_str_sort` returns a permutation of the same strings that is non-decreasing
under the comparison the flags select (non-increasing with the reverse flag), for any number of
strings (given that `qsort` sorts with respect to a total preorder — the model sorts by insertion). -/
theorem sort_sorted_perm (fold collate reverse : Bool) (loc : Loc) (strs : List (List Nat)) :
    (sort fold collate reverse loc strs).Perm strs ∧
    (sort fold collate reverse loc strs).Pairwise (fun a b =>
      if reverse then cmpCps (sortKey fold collate loc b) (sortKey fold collate loc a) ≤ 0
      else cmpCps (sortKey fold collate loc a) (sortKey fold collate loc b) ≤ 0) := by
  obtain ⟨htot, htr⟩ := comparator_total_preorder fold collate reverse loc
  unfold sort
  refine ⟨sortBy_perm _ _, ?_⟩
  have := sortBy_sorted _ htot htr strs
  refine List.Pairwise.imp ?_ this
  intro a b h
  cases reverse <;> simpa using h

/-! ## non-vacuity -/

example : compare false false false .n [0x61, 0x62] [0x61, 0x63] = -1 ∧ compare false false true .n [0x61, 0x62] [0x61, 0x63] = 1 := by decide
-- "STRASSE" and "straße" have equal full foldings; "a\0b" and "a\0c" do not
example : compare true false false .n [0x53, 0x54, 0x52, 0x41, 0x53, 0x53, 0x45] [0x73, 0x74, 0x72, 0x61, 0xDF, 0x65] = 0 := by decide +kernel
example : compare true false false .n [0x61, 0, 0x62] [0x61, 0, 0x63] = -1 := by decide +kernel
-- Turkic folding: I folds to dotless i under tr only
example : compare true false false .tr [0x49] [0x131] = 0 ∧ compare true false false .n [0x49] [0x131] ≠ 0 := by decide +kernel
example : sort true false false .n [[0x62], [0x41], [0x61], [0x42]] = [[0x41], [0x61], [0x62], [0x42]] := by decide +kernel

end Gpc.Compare
