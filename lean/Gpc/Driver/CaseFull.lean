import Gpc.Model.Proto
import Gpc.Model.CaseFull
import Gpc.Model.Compare
import Gpc.Model.Scratch
namespace Gpc.Driver
open Gpc.Proto Gpc.CaseFull Gpc.Utf

def locOf (s : String) : Loc := if s == "-" || s == "null" then .n else Loc.ofCode (s.toList.map fun c => UInt8.ofNat c.toNat)

def encAll (cps : List Nat) : List UInt8 := cps.flatMap encodeU8

/-- `cf up|lo|cap <loc> <cap> <hex>`, `cf sup|slo|sti <cap> <hex>`: the result string (the harness adds scratch
and heap figures after it, which C15's model answers) -/
def decodeHex (h : String) : Option (List Nat) :=
  match parseHex h with
  | none => none
  | some s => decodeAll s.length s

def decodeHexes : List String → Option (List (List Nat))
  | [] => some []
  | h :: t => do let a ← decodeHex h; let r ← decodeHexes t; pure (a :: r)

/-- result token of one call and the arena script it runs (`none` = rejected input) -/
def cfCall (toks : List String) : Option (String × (Scratch.St → Option Scratch.St)) :=
  match toks with
  | "cmp" :: flags :: loc :: [h1, h2] =>
    match parseHex h1, parseHex h2 with
    | some b1, some b2 =>
      match decodeAll b1.length b1, decodeAll b2.length b2 with
      | some a, some b =>
        let f := flags.toList
        let fold := f.contains 'f'; let coll := f.contains 'c'
        -- without fold / collation the C code runs a byte loop: that loop is what is executed here
        -- (Props/C13 `plain_compare_is_codepoint_order`: it decides as the code point comparison)
        let plain : Option Int := if !fold && !coll then
            (Compare.cmpBytes b1 b2 (b1.length + 1)).map fun r => let s := Compare.sgn r; if f.contains 'r' then -s else s
          else none
        some (toString (plain.getD (Compare.compare fold coll (f.contains 'r') (locOf loc) a b)),
          fun st => if fold || coll then Scratch.compareScript st fold (locOf loc) a b b1.length b2.length else some st)
      | _, _ => none
    | _, _ => none
  | "sort" :: flags :: loc :: hs =>
    match hs.mapM parseHex with
    | some bs =>
      match bs.mapM (fun b => decodeAll b.length b) with
      | some strs =>
        let f := flags.toList
        let fold := f.contains 'f'; let coll := f.contains 'c'
        let r := Compare.sort fold coll (f.contains 'r') (locOf loc) strs
        some (if r.isEmpty then "-" else ",".intercalate (r.map fun s => toHex (encAll s)),
          fun st => if fold || coll then Scratch.sortScript st fold (locOf loc) (strs.zip (bs.map (·.length))) else some st)
      | none => none
    | none => none
  | [op, loc, _cap, h] =>
    match parseHex h with
    | none => none
    | some s =>
      match decodeAll s.length s with
      | none => none
      | some cps =>
        let L := locOf loc
        if op == "up" then some (toHex (encAll (upperFull L cps)),
          fun st => Scratch.caseFullScript st s.length (Scratch.upperChunks L (cps.length + 1) cps))
        else if op == "lo" then some (toHex (encAll (lowerFull L cps)),
          fun st => Scratch.caseFullScript st s.length (Scratch.lowerChunks L (cps.length + 1) 0 cps))
        else if op == "cap" then some (toHex (encAll (capitalize L cps)), fun st => some st)
        else none
  | [op, _cap, h] =>
    match parseHex h with
    | none => none
    | some s =>
      match decodeAll s.length s with
      | none => none
      | some cps =>
        let f := if op == "sup" then some CaseMap.toUpper else if op == "slo" then some CaseMap.toLower
                 else if op == "sti" then some CaseMap.toTitle else none
        f.map fun f => (toHex (encAll (cps.map f)), fun st => Scratch.caseSimpleScript st s.length)
  | _ => none

def repeatScript (f : Scratch.St → Option Scratch.St) : Nat → Scratch.St → Option Scratch.St
  | 0, st => some st
  | n + 1, st => (f st).bind (repeatScript f n)

/-- `cf [rep <n>] <call>`: result, whether the scratch position changed, heap requests and frees of the scratch arena -/
def cfStep (toks : List String) : String :=
  let (reps, call) := match toks with
    | "rep" :: n :: rest => (n.toNat?.getD 1, rest)
    | _ => (1, toks)
  -- bytes behind the end of the string are not part of it: the model does not see them
  let call := match call with
    | "stale" :: _ :: rest => rest
    | _ => call
  let (pre, call) := match call with
    | "pre" :: n :: rest => (n.toNat?.getD 0, rest)
    | _ => (0, call)
  match cfCall call with
  | none => "bad-op"
  | some (res, script) =>
    -- the caller's own scratch allocation, made before the accounting starts
    let st0 : Scratch.St := if pre = 0 then { arena := Scratch.fresh }
      else { arena := ((({ arena := Scratch.fresh } : Scratch.St).alloc pre).1).arena }
    match repeatScript script reps st0 with
    | none => res ++ " SCRATCH-REWIND-FAILED"
    | some st =>
      let shape (a : Arena.Arena) := a.nodes.map fun n => (n.cap, n.pos)
      let d := if shape st.arena == shape st0.arena then 0 else 1
      let m := if st.mallocs.isEmpty then "-" else ",".intercalate (st.mallocs.map toString)
      s!"{res} d={d} m:{m} f:{st.frees}"

end Gpc.Driver
