import Gpc.Proofs.Print
import Gpc.Proofs.FloatSpecWF
/-! `gp_count_fmt_specs` (how many of the following print objects belong to an embedded format string)
agrees with the number of arguments the formatter's own scan consumes. -/
namespace Gpc.Printf

def scanWidth : Bytes → Bytes × Option Num
  | 42 :: r => (r, some .star)
  | b :: r => if isDigit b then let (r', n) := scanNat (b :: r) 0; (r', some (.lit n)) else (b :: r, none)
  | [] => ([], none)

def scanPrec : Bytes → Bytes × Option Num
  | 46 :: 42 :: r => (r, some .star)
  | 46 :: r => let (r', n) := scanNat r 0; (r', some (.lit n))
  | r => (r, none)

theorem scanSpec_eq (s : Bytes) : scanSpec s =
    match s with
    | 37 :: r => some ({ conv := '%' }, r)
    | _ =>
      match (scanLen (scanPrec (scanWidth (scanFlags s {}).1).1).1).1 with
      | c :: r => some ({ flags := (scanFlags s {}).2, width := (scanWidth (scanFlags s {}).1).2,
                          prec := (scanPrec (scanWidth (scanFlags s {}).1).1).2,
                          len := (scanLen (scanPrec (scanWidth (scanFlags s {}).1).1).1).2,
                          conv := Char.ofNat c.toNat }, r)
      | [] => none := by
  unfold scanSpec
  rfl

def isConvB (b : UInt8) : Bool :=
  [99, 115, 83, 100, 105, 111, 120, 88, 117, 102, 70, 101, 69, 103, 71, 112].contains b

/-- a byte of a conversion specification that is neither a conversion character, a `%` nor a `*` -/
def Inert (b : UInt8) : Prop := isConvB b = false ∧ b ≠ 37 ∧ b ≠ 42

instance : DecidablePred Inert := fun b => by unfold Inert; infer_instance

theorem inert_of_mem (l : List UInt8) (hl : ∀ b ∈ l, Inert b) {b : UInt8} (h : b ∈ l) : Inert b := hl b h

theorem inert_digit (b : UInt8) (h : isDigit b = true) : Inert b := by
  have hb : 48 ≤ b.toNat ∧ b.toNat ≤ 57 := by
    simp only [isDigit, Bool.decide_and, Bool.and_eq_true, decide_eq_true_eq] at h
    exact ⟨UInt8.le_iff_toNat_le.mp h.1, UInt8.le_iff_toNat_le.mp h.2⟩
  have ne : ∀ k : UInt8, (k.toNat < 48 ∨ 57 < k.toNat) → b ≠ k := fun k hk e => by subst e; omega
  refine ⟨?_, ne 37 (by decide), ne 42 (by decide)⟩
  simp only [isConvB, List.contains_eq_mem, List.mem_cons, List.not_mem_nil, or_false, decide_eq_false_iff_not, not_or]
  refine ⟨ne _ (by decide), ne _ (by decide), ne _ (by decide), ne _ (by decide), ne _ (by decide), ne _ (by decide),
    ne _ (by decide), ne _ (by decide), ne _ (by decide), ne _ (by decide), ne _ (by decide), ne _ (by decide),
    ne _ (by decide), ne _ (by decide), ne _ (by decide), ne _ (by decide)⟩

theorem scanFlags_dec : ∀ (s : Bytes) (f : Flags), ∃ pre, s = pre ++ (scanFlags s f).1 ∧ ∀ b ∈ pre, Inert b := by
  intro s
  induction s with
  | nil => intro f; exact ⟨[], rfl, fun _ h => by simp at h⟩
  | cons b r ih =>
    intro f
    unfold scanFlags
    by_cases h1 : b = 45
    · obtain ⟨pre, e, hp⟩ := ih { f with dash := true }
      rw [if_pos h1]
      exact ⟨b :: pre, by rw [List.cons_append, ← e], fun c hc => by
        rcases List.mem_cons.mp hc with hc | hc
        · subst hc; subst h1; decide
        · exact hp c hc⟩
    rw [if_neg h1]
    by_cases h2 : b = 43
    · obtain ⟨pre, e, hp⟩ := ih { f with plus := true }
      rw [if_pos h2]
      exact ⟨b :: pre, by rw [List.cons_append, ← e], fun c hc => by
        rcases List.mem_cons.mp hc with hc | hc
        · subst hc; subst h2; decide
        · exact hp c hc⟩
    rw [if_neg h2]
    by_cases h3 : b = 32
    · obtain ⟨pre, e, hp⟩ := ih { f with space := true }
      rw [if_pos h3]
      exact ⟨b :: pre, by rw [List.cons_append, ← e], fun c hc => by
        rcases List.mem_cons.mp hc with hc | hc
        · subst hc; subst h3; decide
        · exact hp c hc⟩
    rw [if_neg h3]
    by_cases h4 : b = 35
    · obtain ⟨pre, e, hp⟩ := ih { f with hash := true }
      rw [if_pos h4]
      exact ⟨b :: pre, by rw [List.cons_append, ← e], fun c hc => by
        rcases List.mem_cons.mp hc with hc | hc
        · subst hc; subst h4; decide
        · exact hp c hc⟩
    rw [if_neg h4]
    by_cases h5 : b = 48
    · obtain ⟨pre, e, hp⟩ := ih { f with zero := true }
      rw [if_pos h5]
      exact ⟨b :: pre, by rw [List.cons_append, ← e], fun c hc => by
        rcases List.mem_cons.mp hc with hc | hc
        · subst hc; subst h5; decide
        · exact hp c hc⟩
    rw [if_neg h5]
    exact ⟨[], rfl, fun _ h => by simp at h⟩

theorem scanNat_dec : ∀ (s : Bytes) (acc : Nat), ∃ pre, s = pre ++ (scanNat s acc).1 ∧ ∀ b ∈ pre, Inert b := by
  intro s
  induction s with
  | nil => intro acc; exact ⟨[], rfl, fun _ h => by simp at h⟩
  | cons b r ih =>
    intro acc
    unfold scanNat
    by_cases hd : isDigit b = true
    · obtain ⟨pre, e, hp⟩ := ih (acc * 10 + (b.toNat - 48))
      rw [if_pos hd]
      exact ⟨b :: pre, by rw [List.cons_append, ← e], fun c hc => by
        rcases List.mem_cons.mp hc with hc | hc
        · subst hc; exact inert_digit c hd
        · exact hp c hc⟩
    · rw [if_neg hd]
      exact ⟨[], rfl, fun _ h => by simp at h⟩

def numStar : Option Num → Nat
  | some .star => 1
  | _ => 0

def stars (l : Bytes) : Nat := (l.filter (· = 42)).length

/-- a run of specification bytes: no conversion character and no `%` inside -/
def Plain (l : Bytes) : Prop := ∀ b ∈ l, isConvB b = false ∧ b ≠ 37

theorem stars_inert (l : Bytes) (h : ∀ b ∈ l, Inert b) : stars l = 0 := by
  unfold stars
  rw [List.length_eq_zero_iff, List.filter_eq_nil_iff]
  intro b hb
  simpa using (h b hb).2.2

theorem plain_inert (l : Bytes) (h : ∀ b ∈ l, Inert b) : Plain l := fun b hb => ⟨(h b hb).1, (h b hb).2.1⟩

theorem stars_append (a b : Bytes) : stars (a ++ b) = stars a + stars b := by simp [stars]

theorem plain_append {a b : Bytes} (ha : Plain a) (hb : Plain b) : Plain (a ++ b) :=
  fun c hc => (List.mem_append.mp hc).elim (ha c) (hb c)

theorem scanWidth_dec (s : Bytes) :
    ∃ pre, s = pre ++ (scanWidth s).1 ∧ Plain pre ∧ stars pre = numStar (scanWidth s).2 := by
  unfold scanWidth
  split
  · rename_i r
    exact ⟨[42], rfl, fun b hb => by simp only [List.mem_singleton] at hb; subst hb; decide, rfl⟩
  · rename_i b r hne
    by_cases hd : isDigit b = true
    · rw [if_pos hd]
      obtain ⟨pre, e, hp⟩ := scanNat_dec (b :: r) 0
      exact ⟨pre, e, plain_inert pre hp, by rw [stars_inert pre hp]; rfl⟩
    · rw [if_neg hd]
      exact ⟨[], rfl, fun _ h => by simp at h, rfl⟩
  · exact ⟨[], rfl, fun _ h => by simp at h, rfl⟩

theorem scanPrec_dec (s : Bytes) :
    ∃ pre, s = pre ++ (scanPrec s).1 ∧ Plain pre ∧ stars pre = numStar (scanPrec s).2 := by
  unfold scanPrec
  split
  · rename_i r
    exact ⟨[46, 42], rfl, fun b hb => by
      simp only [List.mem_cons, List.not_mem_nil, or_false] at hb
      rcases hb with hb | hb <;> subst hb <;> decide, rfl⟩
  · rename_i r hne
    obtain ⟨pre, e, hp⟩ := scanNat_dec r 0
    refine ⟨46 :: pre, by rw [List.cons_append, ← e], ?_, ?_⟩
    · intro b hb
      rcases List.mem_cons.mp hb with hb | hb
      · subst hb; decide
      · exact ⟨(hp b hb).1, (hp b hb).2.1⟩
    · have : stars (46 :: pre) = stars pre := by simp [stars]
      rw [this, stars_inert pre hp]; rfl
  · exact ⟨[], rfl, fun _ h => by simp at h, rfl⟩

theorem scanLen_dec (s : Bytes) : ∃ pre, s = pre ++ (scanLen s).1 ∧ ∀ b ∈ pre, Inert b := by
  unfold scanLen
  split
  all_goals first
    | exact ⟨[], rfl, fun _ h => by simp at h⟩
    | exact ⟨[_, _], rfl, fun b hb => by
        simp only [List.mem_cons, List.not_mem_nil, or_false] at hb
        rcases hb with hb | hb <;> subst hb <;> decide⟩
    | exact ⟨[_], rfl, fun b hb => by simp only [List.mem_singleton] at hb; subst hb; decide⟩

/-- the bytes a conversion specification occupies: a run without conversion characters or `%`, holding one
`*` per starred field, then the conversion character -/
theorem scanSpec_dec (s : Bytes) (raw : RawSpec) (rest : Bytes) (h0 : s.head? ≠ some 37)
    (h : scanSpec s = some (raw, rest)) :
    ∃ pre c, s = pre ++ c :: rest ∧ Plain pre ∧ stars pre = numStar raw.width + numStar raw.prec ∧
      raw.conv = Char.ofNat c.toNat := by
  rw [scanSpec_eq] at h
  split at h
  · rename_i r; simp at h0
  · obtain ⟨p1, e1, i1⟩ := scanFlags_dec s {}
    obtain ⟨p2, e2, pl2, st2⟩ := scanWidth_dec (scanFlags s {}).1
    obtain ⟨p3, e3, pl3, st3⟩ := scanPrec_dec (scanWidth (scanFlags s {}).1).1
    obtain ⟨p4, e4, i4⟩ := scanLen_dec (scanPrec (scanWidth (scanFlags s {}).1).1).1
    split at h
    · rename_i c r hc
      simp only [Option.some.injEq, Prod.mk.injEq] at h
      obtain ⟨hraw, hrest⟩ := h
      subst hrest
      refine ⟨p1 ++ p2 ++ p3 ++ p4, c, ?_, ?_, ?_, ?_⟩
      · rw [hc] at e4
        conv => lhs; rw [e1, e2, e3, e4]
        simp [List.append_assoc]
      · exact plain_append (plain_append (plain_append (plain_inert p1 i1) pl2) pl3) (plain_inert p4 i4)
      · rw [stars_append, stars_append, stars_append, stars_inert p1 i1, stars_inert p4 i4, st2, st3, ← hraw]
        simp
      · rw [← hraw]
    · cases h




/-- `gp_count_fmt_specs` by structural recursion -/
def countS : Bytes → Nat
  | [] => 0
  | 37 :: 37 :: r => countS r
  | 37 :: r => stars (r.takeWhile (fun b => !isConvB b)) + 1 + countS r
  | _ :: r => countS r

/-- the fuelled scan of the model equals the structural one when the fuel covers the string -/
theorem count_eq (s : Bytes) (fuel : Nat) (h : s.length ≤ fuel) : countFmtSpecs s fuel = countS s := by
  fun_induction countFmtSpecs s fuel
  · simp at h; subst h; rfl
  · rfl
  · rename_i r fuel ih
    simp only [List.length_cons] at h
    rw [ih (by omega)]; simp [countS]
  · rename_i r fuel hne isConv pre ih
    simp only [List.length_cons] at h
    rw [ih (by omega), countS.eq_3 r hne]
    rfl
  · rename_i b r fuel h1 h2 ih
    simp only [List.length_cons] at h
    rw [ih (by omega)]
    symm
    apply countS.eq_4
    · exact h1
    · exact h2

theorem countS_cons_ne (b : UInt8) (r : Bytes) (hb : b ≠ 37) : countS (b :: r) = countS r := by
  apply countS.eq_4
  · intro _ h; exact absurd h hb
  · intro h; exact absurd h hb

/-- bytes without `%` are skipped -/
theorem countS_skip (l rest : Bytes) (h : ∀ b ∈ l, b ≠ 37) : countS (l ++ rest) = countS rest := by
  induction l with
  | nil => rfl
  | cons b l ih =>
    rw [List.cons_append, countS_cons_ne b _ (h b (by simp)), ih (fun c hc => h c (by simp [hc]))]

theorem isConvB_ne_pct (c : UInt8) (h : isConvB c = true) : c ≠ 37 := by
  intro e; subst e; revert h; decide

/-- the number of arguments the formatter's own scan (`splitLiteral`, `scanSpec`) takes for a format:
one per `*` and one per conversion other than `%%`; `none` for formats it does not accept (an unknown
conversion character, a `%` conversion with flags or a width) -/
def argsNeeded : Nat → Bytes → Option Nat
  | 0, _ => none
  | fuel + 1, fmt =>
    match (splitLiteral fmt).2 with
    | [] => some 0
    | _ :: after =>
      match scanSpec after with
      | none => none
      | some (raw, rest) =>
        match after with
        | 37 :: _ => argsNeeded fuel rest
        | _ =>
          match after[after.length - rest.length - 1]? with
          | some c =>
            if isConvB c then (argsNeeded fuel rest).map (· + (numStar raw.width + numStar raw.prec + 1)) else none
          | none => none

/-- **`gp_count_fmt_specs` counts what the formatter consumes**: for every format the formatter's scan
accepts, the count (one per `%` that is not `%%`, plus the `*`s before its conversion character) is the
number of arguments the formatter takes. -/
theorem countS_eq_argsNeeded (fuel : Nat) : ∀ (fmt : Bytes) (k : Nat), argsNeeded fuel fmt = some k → countS fmt = k := by
  induction fuel with
  | zero => intro fmt k h; simp [argsNeeded] at h
  | succ fuel ih =>
    intro fmt k h
    unfold argsNeeded at h
    have hsplit : fmt = (splitLiteral fmt).1 ++ (splitLiteral fmt).2 := by
      unfold splitLiteral; exact List.takeWhile_append_dropWhile.symm
    have hlit : ∀ b ∈ (splitLiteral fmt).1, b ≠ 37 := by
      intro b hb
      have hb' : b ∈ fmt.takeWhile (fun x => decide (x ≠ 37)) := hb
      have := List.all_eq_true.mp (List.all_takeWhile (l := fmt) (p := fun x => decide (x ≠ 37))) b hb'
      simpa using this
    rw [hsplit, countS_skip _ _ hlit]
    cases hr : (splitLiteral fmt).2 with
    | nil => rw [hr] at h; simp at h; subst h; rfl
    | cons x after =>
      rw [hr] at h
      simp only at h
      have hx : x = 37 := by
        have := dropWhile_head_not fmt (· ≠ 37) x after (by simpa [splitLiteral] using hr)
        simpa using this
      subst hx
      cases hs : scanSpec after with
      | none => rw [hs] at h; simp at h
      | some rr =>
        obtain ⟨raw, rest⟩ := rr
        rw [hs] at h
        simp only at h
        split at h
        · rename_i r
          have : rest = r := by
            simp only [scanSpec] at hs
            simp at hs; exact hs.2.symm
          subst this
          have : countS (37 :: 37 :: rest) = countS rest := by simp [countS]
          rw [this]; exact ih rest k h
        · rename_i hne
          have h0 : after.head? ≠ some 37 := by
            intro e
            cases after with
            | nil => simp at e
            | cons a t => simp at e; subst e; exact hne t rfl
          obtain ⟨pre, c, eafter, hpl, hst, _⟩ := scanSpec_dec after raw rest h0 hs
          have hidx : after[after.length - rest.length - 1]? = some c := by
            rw [eafter]
            have : (pre ++ c :: rest).length - rest.length - 1 = pre.length := by
              simp only [List.length_append, List.length_cons]; omega
            rw [this, List.getElem?_append_right (Nat.le_refl _)]
            simp
          rw [hidx] at h
          simp only at h
          split at h
          · rename_i hc
            cases hk : argsNeeded fuel rest with
            | none => rw [hk] at h; simp at h
            | some k' =>
              rw [hk] at h
              simp only [Option.map_some, Option.some.injEq] at h
              have hnot37 : ∀ r', after = 37 :: r' → False := fun r' e => by rw [e] at h0; simp at h0
              rw [countS.eq_3 after hnot37]
              have htw : after.takeWhile (fun b => !isConvB b) = pre := by
                rw [eafter]
                exact takeWhile_append_stop pre rest c _ (fun b hb => by simp [(hpl b hb).1]) (by simp [hc])
              rw [htw]
              have hafter : countS after = k' := by
                rw [eafter, countS_skip pre _ (fun b hb => (hpl b hb).2), countS_cons_ne c rest (isConvB_ne_pct c hc)]
                exact ih rest k' hk
              rw [hafter, hst]; omega
          · cases h

/-- the same for the model's fuelled `gp_count_fmt_specs` as the print family calls it -/
theorem countFmtSpecs_eq_argsNeeded (fmt : Bytes) (fuel k : Nat) (h : argsNeeded fuel fmt = some k) :
    countFmtSpecs fmt (fmt.length + 1) = k := by
  rw [count_eq fmt _ (by omega)]; exact countS_eq_argsNeeded fuel fmt k h

end Gpc.Printf
