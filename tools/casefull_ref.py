"""Reference for Unicode default full case conversion (Unicode 14, chapter 3.13, SpecialCasing.txt) and full
case folding, over the vendored character database tools/ucd/ucd14.txt.  Oracle of C12 / C13 / C15."""
import os, bisect

HERE = os.path.dirname(os.path.abspath(__file__))


class Ucd:
    def __init__(self, path=os.path.join(HERE, "ucd", "ucd14.txt")):
        self.simple = {"Simple_Uppercase_Mapping": {}, "Simple_Lowercase_Mapping": {}, "Simple_Titlecase_Mapping": {}, "Simple_Case_Folding": {}}
        self.full = {"Uppercase_Mapping_full": {}, "Lowercase_Mapping_full": {}, "Titlecase_Mapping_full": {}, "Case_Folding_full": {}}
        self.ranges = {"Cased": [], "Case_Ignorable": [], "Soft_Dotted": []}
        self.ccc = []
        for l in open(path):
            t = l.split()
            if not t or t[0] == "#": continue
            if t[0] in self.simple: self.simple[t[0]][int(t[1], 16)] = int(t[2], 16)
            elif t[0] in self.full: self.full[t[0]][int(t[1], 16)] = [int(x, 16) for x in t[2:]]
            elif t[0] in self.ranges: self.ranges[t[0]].append((int(t[1], 16), int(t[2], 16)))
            elif t[0] == "Ccc": self.ccc.append((int(t[2], 16), int(t[3], 16), int(t[1])))
        for k in self.ranges: self.ranges[k].sort()
        self.ccc.sort()

    def _in(self, name, c):
        r = self.ranges[name]
        i = bisect.bisect_right(r, (c, 0x110000)) - 1
        return i >= 0 and r[i][0] <= c <= r[i][1]

    def cased(self, c): return self._in("Cased", c)
    def case_ignorable(self, c): return self._in("Case_Ignorable", c)
    def soft_dotted(self, c): return self._in("Soft_Dotted", c)

    def combining_class(self, c):
        i = bisect.bisect_right(self.ccc, (c, 0x110000, 999)) - 1
        if i >= 0 and self.ccc[i][0] <= c <= self.ccc[i][1]: return self.ccc[i][2]
        return 0

    def upper1(self, c): return self.full["Uppercase_Mapping_full"].get(c) or [self.simple["Simple_Uppercase_Mapping"].get(c, c)]
    def lower1(self, c): return self.full["Lowercase_Mapping_full"].get(c) or [self.simple["Simple_Lowercase_Mapping"].get(c, c)]
    def title1(self, c): return self.full["Titlecase_Mapping_full"].get(c) or [self.simple["Simple_Titlecase_Mapping"].get(c, c)]
    def fold1(self, c): return self.full["Case_Folding_full"].get(c) or [self.simple["Simple_Case_Folding"].get(c, c)]


_U = None
def ucd():
    global _U
    if _U is None: _U = Ucd()
    return _U


# ---- contexts of Table 3-17 -------------------------------------------------------------------------------

def final_sigma(cps, i):
    u = ucd()
    j = i - 1
    while j >= 0 and u.case_ignorable(cps[j]): j -= 1
    if j < 0 or not u.cased(cps[j]): return False
    j = i + 1
    while j < len(cps) and u.case_ignorable(cps[j]): j += 1
    return not (j < len(cps) and u.cased(cps[j]))


def after_soft_dotted(cps, i):
    u = ucd()
    j = i - 1
    while j >= 0:
        if u.soft_dotted(cps[j]): return True
        if u.combining_class(cps[j]) in (0, 230): return False
        j -= 1
    return False


def more_above(cps, i):
    u = ucd()
    j = i + 1
    while j < len(cps):
        cc = u.combining_class(cps[j])
        if cc == 230: return True
        if cc == 0: return False
        j += 1
    return False


def before_dot(cps, i):
    u = ucd()
    j = i + 1
    while j < len(cps):
        if cps[j] == 0x307: return True
        if u.combining_class(cps[j]) in (0, 230): return False
        j += 1
    return False


def after_I(cps, i):
    u = ucd()
    j = i - 1
    while j >= 0:
        if cps[j] == 0x49: return True
        if u.combining_class(cps[j]) in (0, 230): return False
        j -= 1
    return False


def lang(locale):
    l = (locale or "")[:2]
    return l if l in ("tr", "az", "lt") else ""


def to_lower(cps, locale=""):
    u = ucd(); L = lang(locale); out = []
    for i, c in enumerate(cps):
        if c == 0x3A3:
            out.append(0x3C2 if final_sigma(cps, i) else 0x3C3); continue
        if L == "lt":
            if c in (0x49, 0x4A, 0x12E) and more_above(cps, i):
                out += [{0x49: 0x69, 0x4A: 0x6A, 0x12E: 0x12F}[c], 0x307]; continue
            if c == 0xCC: out += [0x69, 0x307, 0x300]; continue
            if c == 0xCD: out += [0x69, 0x307, 0x301]; continue
            if c == 0x128: out += [0x69, 0x307, 0x303]; continue
        if L in ("tr", "az"):
            if c == 0x130: out.append(0x69); continue
            if c == 0x307 and after_I(cps, i): continue
            if c == 0x49 and not before_dot(cps, i): out.append(0x131); continue
        out += u.lower1(c)
    return out


def to_upper(cps, locale=""):
    u = ucd(); L = lang(locale); out = []
    for i, c in enumerate(cps):
        if L == "lt" and c == 0x307 and after_soft_dotted(cps, i): continue
        if L in ("tr", "az") and c == 0x69: out.append(0x130); continue
        out += u.upper1(c)
    return out


def to_title_first(cps, locale=""):
    """titlecase mapping of the first code point only, the rest unchanged (what `capitalize` is specified to do)"""
    if not cps: return []
    u = ucd(); L = lang(locale)
    c = cps[0]
    rest = list(cps[1:])
    if L in ("tr", "az") and c == 0x69: return [0x130] + rest
    if L == "lt" and rest and rest[0] == 0x307 and u.soft_dotted(c):
        # the dot above that follows a soft-dotted letter is removed when the letter is title/upper-cased
        rest = rest[1:]
    return u.title1(c) + rest


def fold(cps, locale=""):
    u = ucd(); L = lang(locale); out = []
    for c in cps:
        if L in ("tr", "az"):
            if c == 0x49: out.append(0x131); continue
            if c == 0x130: out.append(0x69); continue
        out += u.fold1(c)
    return out


def dec(b): return [ord(ch) for ch in b.decode("utf-8")]
def enc(cps): return "".join(chr(c) for c in cps).encode("utf-8")
