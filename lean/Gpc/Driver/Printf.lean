import Gpc.Model.Proto
import Gpc.Model.Printf
import Gpc.Model.Print
namespace Gpc.Driver
open Gpc.Proto Gpc.Printf

def parseHexNat (s : String) : Option Nat :=
  s.toList.foldl (fun acc c => match acc, hexVal c with
    | some a, some v => some (a * 16 + v)
    | _, _ => none) (some 0)

def parseArg (t : String) : Option Arg :=
  match t.toList with
  | 'i' :: r => (String.ofList r).toInt?.map fun v => Arg.int (v % ((2 : Int) ^ 64)).toNat
  | 'u' :: r => (String.ofList r).toNat?.map fun v => Arg.int (v % 2 ^ 64)
  | 'd' :: r => (parseHexNat (String.ofList r)).map Arg.dbl
  | 's' :: r => (parseHex (String.ofList r)).map Arg.str
  | 'x' :: r => (parseHex (String.ofList r)).map Arg.str
  | 'G' :: r => (parseHex (String.ofList r)).map Arg.gstr
  | _ => none

def parseArgs : List String → Option (List Arg)
  | [] => some []
  | t :: ts => do let a ← parseArg t; let r ← parseArgs ts; pure (a :: r)

def parseObj (t : String) : Option Obj :=
  match t.toList with
  | [] => none
  | k :: r =>
    let v := String.ofList r
    if "cahilqb".contains k then v.toInt?.map fun x => { kind := k, val := Arg.int (x % ((2 : Int) ^ 64)).toNat }
    else if "AHILQp".contains k then v.toNat?.map fun x => { kind := k, val := Arg.int (x % 2 ^ 64) }
    else if k = 'f' ∨ k = 'd' then (parseHexNat v).map fun b => { kind := k, val := Arg.dbl b }
    else if k = 't' ∨ k = 'g' ∨ k = 'F' then (parseHex v).map fun b => { kind := k, val := Arg.str b }
    else none

def parseObjs : List String → Option (List Obj)
  | [] => some []
  | t :: ts => do let a ← parseObj t; let r ← parseObjs ts; pure (a :: r)

/-- objects of `gp_str_print` whose reserved room is smaller than their text -/
def badEstimates (objs : List Obj) : Bool :=
  objs.any fun o => match objText o with
    | some t => o.kind ≠ 'F' && t.length > sizeEstimate o
    | none => false

def printStep (fn : String) (n : Nat) (objs : List Obj) : String :=
  let fuel := objs.length + 1
  let ln := fn.endsWith "l"
  if fn = "bp" ∨ fn = "bpl" ∨ fn = "snp" ∨ fn = "snpl" then
    let p0 : PF.PF := { data := List.replicate n 170, length := 0 }
    match printObjs fuel p0 objs ln with
    | none => "OOB"
    | some none => "bad-op"
    | some (some p) =>
      match (if ln then printlnEnd p else some p) with
      | none => "OOB-newline"
      | some p =>
        let w := toHex (p.data.take (min p.length p.cap))
        if fn = "bp" ∨ fn = "bpl" then s!"r={p.length} w={w}" else s!"r={p.length} len={min p.length p.cap} w={w}"
  else if fn = "sp" ∨ fn = "spl" ∨ fn = "fp" ∨ fn = "fpl" then
    match printText fuel objs ln with
    | none => "bad-op"
    | some t =>
      if fn = "fp" ∨ fn = "fpl" then s!"r={t.length} w={toHex t}"
      else if badEstimates objs then "ESTIMATE-TOO-SMALL"
      else s!"r={t.length} len={t.length} w={toHex t}"
  else "bad-op"

/-- `pf pf <n> <fmt> args…`, `pf ref <fmt> args…`, `pf print <fn> <n> objs…` -/
def pfStep (toks : List String) : String :=
  match toks with
  | "pf" :: n :: fmt :: args =>
    match n.toInt?, parseHex fmt, parseArgs args with
    | some n, some fmt, some args =>
      let cap : Nat := if n < 0 then 65536 else n.toNat
      let p0 : PF.PF := { data := List.replicate cap 170, length := 0 }
      match vsnprintf (fmt.length + 1) p0 fmt args with
      | none => "OOB"
      | some none => "bad-op"
      | some (some p) =>
        match finish p with
        | none => "OOB-terminator"
        | some p =>
          let z := if p.length < p.cap then (if p.data[p.length]? = some 0 then "1" else "0") else "-1"
          -- the model's unbounded output must be the specification's text (this is the hypothesis of
          -- `float_text_partial` for the floating point conversions, checked on every case)
          let specOk := n ≥ 0 || specFormat (fmt.length + 1) fmt args == some (p.data.take (min p.length p.cap))
          s!"r={p.length} w={toHex (p.data.take (min p.length p.cap))} z={z}" ++ (if specOk then "" else " MODEL-IS-NOT-SPEC")
    | _, _, _ => "bad-op"
  | "print" :: fn :: n :: objs =>
    match n.toNat?, parseObjs objs with
    | some n, some objs => if objs.isEmpty then "bad-op" else printStep fn n objs
    | _, _ => "bad-op"
  | "ref" :: fmt :: args =>
    match parseHex fmt, parseArgs args with
    | some fmt, some args =>
      match specFormat (fmt.length + 1) fmt args with
      | none => "bad-op"
      | some out => s!"r={out.length} w={toHex out}"
    | _, _ => "bad-op"
  | _ => "bad-op"

end Gpc.Driver
