import Gpc.Model.Utf8
/-!
Specification of well-formed UTF-8 taken from the Unicode Standard, Table 3-7
("Well-Formed UTF-8 Byte Sequences"), independent of the library's packed-word validator.
-/
namespace Gpc.Utf8

def cont (b : UInt8) : Prop := 0x80 ≤ b.toNat ∧ b.toNat ≤ 0xBF
instance (b : UInt8) : Decidable (cont b) := by unfold cont; infer_instance

/-- second byte of a three-byte sequence: E0 → A0..BF, ED → 80..9F, otherwise 80..BF -/
def sec3 (b0 : Nat) (b1 : UInt8) : Prop :=
  (b0 = 0xE0 → 0xA0 ≤ b1.toNat) ∧ (b0 = 0xED → b1.toNat ≤ 0x9F) ∧ cont b1
instance (b0 : Nat) (b1 : UInt8) : Decidable (sec3 b0 b1) := by unfold sec3; infer_instance

/-- second byte of a four-byte sequence: F0 → 90..BF, F4 → 80..8F, otherwise 80..BF -/
def sec4 (b0 : Nat) (b1 : UInt8) : Prop :=
  (b0 = 0xF0 → 0x90 ≤ b1.toNat) ∧ (b0 = 0xF4 → b1.toNat ≤ 0x8F) ∧ cont b1
instance (b0 : Nat) (b1 : UInt8) : Decidable (sec4 b0 b1) := by unfold sec4; infer_instance

/-- length of the well-formed byte sequence of Table 3-7 at the head of `s`; 0 if there is none -/
def wfLen : Bytes → Nat
  | [] => 0
  | b0 :: t =>
    let b := b0.toNat
    if b ≤ 0x7F then 1
    else if 0xC2 ≤ b ∧ b ≤ 0xDF then
      match t with
      | b1 :: _ => if cont b1 then 2 else 0
      | [] => 0
    else if 0xE0 ≤ b ∧ b ≤ 0xEF then
      match t with
      | b1 :: b2 :: _ => if sec3 b b1 ∧ cont b2 then 3 else 0
      | _ => 0
    else if 0xF0 ≤ b ∧ b ≤ 0xF4 then
      match t with
      | b1 :: b2 :: b3 :: _ => if sec4 b b1 ∧ cont b2 ∧ cont b3 then 4 else 0
      | _ => 0
    else 0

/-- a byte string is well formed iff it is a concatenation of Table 3-7 sequences -/
inductive WellFormed : Bytes → Prop
  | nil : WellFormed []
  | cons (c rest : Bytes) : c ≠ [] → wfLen c = c.length → WellFormed rest → WellFormed (c ++ rest)

/-- greedy repair, streaming form: at a position where a Table 3-7 sequence of length `n` starts its
`n` bytes are copied (`skip` counts the bytes still to copy); at any other position ONE byte is
replaced by the replacement text. -/
def repairSpec (repl : Bytes) : (skip : Nat) → Bytes → Bytes
  | _, [] => []
  | 0, b :: t =>
    let n := wfLen (b :: t)
    if n = 0 then repl ++ repairSpec repl 0 t else b :: repairSpec repl (n - 1) t
  | k + 1, b :: t => b :: repairSpec repl k t

end Gpc.Utf8
