/-
Model of the arena allocator anchored by C01 (src/memory.c: gp_arena_alloc, gp_arena_new,
gp_mem_realloc, gp_arena_rewind, gp_arena_delete), as repaired (a node's recorded capacity is the
number of payload bytes obtained from malloc; realloc copies min(old,new)).

Addresses are (node ordinal counted from the first node, byte offset from the node's payload start).
`malloc` is the contract "a fresh region of exactly the requested size, disjoint from all others":
distinct nodes never overlap, so only offsets inside one node have to be reasoned about.
The growth product `growth_coefficient * capacity` is an arbitrary function `g : Nat → Nat`.
-/
namespace Gpc.Arena

/-- `gp_round_to_aligned(x, b)` for a power-of-two `b` without overflow: least multiple of b ≥ x -/
def roundUp (x b : Nat) : Nat := (x + b - 1) / b * b

/-- a live block: offset in its node and the size that was requested -/
structure Blk where
  off : Nat
  size : Nat
deriving DecidableEq, Repr

/-- one `GPArenaNode`: recorded capacity (= bytes obtained), bump position, and the blocks handed
out from it that are still live, newest first -/
structure Node where
  cap : Nat
  pos : Nat
  blocks : List Blk
deriving DecidableEq, Repr

structure Arena where
  align : Nat
  maxSize : Nat
  nodes : List Node            -- head node first
deriving DecidableEq, Repr

/-- address of a block -/
structure Addr where
  node : Nat                   -- ordinal from the bottom: the first node is 0
  off : Nat
deriving DecidableEq, Repr

/-- `gp_arena_new(capacity)`: rounds the capacity to GP_ALLOC_ALIGNMENT (16), 256 when 0 -/
def new (capacity align maxSize : Nat) : Arena :=
  { align := align, maxSize := maxSize,
    nodes := [{ cap := if capacity ≠ 0 then roundUp capacity 16 else 256, pos := 0, blocks := [] }] }

/-- `gp_arena_alloc` without the ledger: (new node list, address).  `n` = requested size. -/
def allocRaw (g : Nat → Nat) (a : Arena) (n : Nat) : Arena × Addr :=
  let size := roundUp n a.align
  match a.nodes with
  | [] => (a, ⟨0, 0⟩)                                  -- never: an arena always has a node
  | head :: tail =>
    if head.pos + size > head.cap then
      let newCap := max size (min (roundUp (g head.cap) a.align) a.maxSize)
      ({ a with nodes := { cap := newCap, pos := size, blocks := [⟨0, n⟩] } :: head :: tail },
       ⟨tail.length + 1, 0⟩)
    else
      ({ a with nodes := { head with pos := head.pos + size, blocks := ⟨head.pos, n⟩ :: head.blocks } :: tail },
       ⟨tail.length, head.pos⟩)

def alloc := allocRaw

/-- `gp_arena_rewind(arena, block)`: pop nodes until the block's node is the head, then set the
position to the block and forget the block and everything allocated after it in that node -/
def rewind (a : Arena) (p : Addr) : Option Arena :=
  let drop := a.nodes.length - 1 - p.node
  match a.nodes.drop drop with
  | [] => none
  | n :: tail =>
    if p.node + 1 ≤ a.nodes.length ∧ p.off ≤ n.cap then
      some { a with nodes := { n with pos := p.off, blocks := n.blocks.filter (fun b => b.off < p.off) } :: tail }
    else none

/-- result of `gp_mem_realloc` on an arena: the new address and the memcpy it performs -/
structure ReallocResult where
  arena : Arena
  addr : Addr
  copy : Option (Addr × Addr × Nat)        -- (src, dst, length)
deriving DecidableEq, Repr

def forgetAt : List Node → Nat → Nat → List Node
  | [], _, _ => []
  | n :: t, 0, off => { n with blocks := n.blocks.filter (fun b => b.off ≠ off) } :: t
  | n :: t, i + 1, off => n :: forgetAt t i off

/-- remove the ledger entry of the block at `p` (its bytes are no longer live) -/
def forget (a : Arena) (p : Addr) : Arena :=
  { a with nodes := forgetAt a.nodes (a.nodes.length - 1 - p.node) p.off }

/-- `gp_mem_realloc(arena, old_block, old_size, new_size)` -/
def realloc (g : Nat → Nat) (a : Arena) (p : Addr) (oldSize newSize : Nat) : ReallocResult :=
  match a.nodes with
  | [] => ⟨a, p, none⟩
  | head :: tail =>
    if p.node = tail.length ∧ p.off + roundUp oldSize a.align = head.pos then
      -- last block: extend in place (position rewound to the block, then allocated again)
      let a' : Arena := { a with nodes := { head with pos := p.off, blocks := head.blocks.filter (fun b => b.off < p.off) } :: tail }
      let (a'', q) := allocRaw g a' newSize
      ⟨a'', q, if q = p then none else some (p, q, oldSize)⟩
    else
      let (a', q) := allocRaw g a newSize
      ⟨forget a' p, q, some (p, q, min oldSize newSize)⟩

/-- sizes handed to `malloc` for the nodes, newest first (payload + 32-byte header) -/
def mallocSizes (a : Arena) : List Nat := a.nodes.map fun n => n.cap + 32

end Gpc.Arena
