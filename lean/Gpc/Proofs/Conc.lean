import Gpc.Model.Conc
/-! Lemmas for C14: the locking discipline implies race freedom; lock-bracketed sections are linearizable. -/
namespace Gpc.Conc

/-! ### 1. race freedom -/

def Cfg.init (progs : Nat → List Act) : Cfg := { owner := fun _ => none, th := fun t => ⟨[], progs t⟩ }

structure ThInv (g : Nat → Option Nat) (c : Cfg) (t : Nat) : Prop where
  owns : ∀ m ∈ (c.th t).held, c.owner m = some t
  nodup : (c.th t).held.Nodup
  guarded : guardedFrom g (c.th t).held (c.th t).rest = true

def Inv (g : Nat → Option Nat) (c : Cfg) : Prop := ∀ t, ThInv g c t

theorem inv_init (g : Nat → Option Nat) (progs : Nat → List Act) (h : ∀ t, guardedFrom g [] (progs t) = true) :
    Inv g (Cfg.init progs) := fun t => ⟨by simp [Cfg.init], by simp [Cfg.init], by simpa [Cfg.init] using h t⟩

theorem guardedFrom_tail (g : Nat → Option Nat) (held : List Nat) (a : Act) (r : List Act)
    (hl : ∀ m, a ≠ .lock m) (hu : ∀ m, a ≠ .unlock m) (h : guardedFrom g held (a :: r) = true) :
    guardedFrom g held r = true := by
  cases a <;> simp_all [guardedFrom]

theorem inv_step (g : Nat → Option Nat) (c c' : Cfg) (t : Nat) (h : Inv g c) (hs : step? c t = some c') : Inv g c' := by
  unfold step? at hs
  have ht := h t
  cases hrest : (c.th t).rest with
  | nil => simp [hrest] at hs
  | cons a r =>
    rw [hrest] at hs
    by_cases hl : ∃ m, a = .lock m
    · obtain ⟨m, rfl⟩ := hl
      simp only [] at hs
      by_cases hfree : c.owner m = none
      · rw [if_pos hfree] at hs
        cases hs
        intro u
        by_cases hut : u = t
        · subst hut
          refine ⟨?_, ?_, ?_⟩
          · intro m' hm'
            simp [setTh] at hm'
            simp only [setOwner]
            by_cases e : m' = m
            · simp [e]
            · rw [if_neg e]; exact ht.owns m' (hm'.resolve_left e)
          · simp only [setTh, ↓reduceIte]
            refine List.nodup_cons.mpr ⟨?_, ht.nodup⟩
            intro hm
            have := ht.owns m hm
            rw [hfree] at this; cases this
          · simp only [setTh, ↓reduceIte]
            have := ht.guarded
            rw [hrest] at this
            simpa [guardedFrom] using this
        · have hu := h u
          refine ⟨?_, ?_, ?_⟩
          · intro m' hm'
            simp only [setTh, if_neg hut] at hm'
            simp only [setOwner]
            by_cases e : m' = m
            · subst e
              have := hu.owns m' hm'
              rw [hfree] at this; cases this
            · rw [if_neg e]; exact hu.owns m' hm'
          · simpa [setTh, if_neg hut] using hu.nodup
          · simpa [setTh, if_neg hut] using hu.guarded
      · rw [if_neg hfree] at hs; cases hs
    · by_cases hu : ∃ m, a = .unlock m
      · obtain ⟨m, rfl⟩ := hu
        simp only [] at hs
        by_cases hown : c.owner m = some t
        · rw [if_pos hown] at hs
          cases hs
          intro u
          by_cases hut : u = t
          · subst hut
            refine ⟨?_, ?_, ?_⟩
            · intro m' hm'
              simp only [setTh, ↓reduceIte] at hm'
              have hne : m' ≠ m := fun e => by
                subst e
                exact (List.Nodup.mem_erase_iff ht.nodup).mp hm' |>.1 rfl
              simp only [setOwner, if_neg hne]
              exact ht.owns m' (List.mem_of_mem_erase hm')
            · simp only [setTh, ↓reduceIte]
              exact ht.nodup.erase m
            · simp only [setTh, ↓reduceIte]
              have := ht.guarded
              rw [hrest] at this
              simpa [guardedFrom] using this
          · have hu' := h u
            refine ⟨?_, ?_, ?_⟩
            · intro m' hm'
              simp only [setTh, if_neg hut] at hm'
              have hne : m' ≠ m := fun e => by
                subst e
                have := hu'.owns m' hm'
                rw [hown] at this
                exact hut (Option.some.inj this).symm
              simp only [setOwner, if_neg hne]
              exact hu'.owns m' hm'
            · simpa [setTh, if_neg hut] using hu'.nodup
            · simpa [setTh, if_neg hut] using hu'.guarded
        · rw [if_neg hown] at hs; cases hs
      · have hl' : ∀ m, a ≠ .lock m := fun m e => hl ⟨m, e⟩
        have hu' : ∀ m, a ≠ .unlock m := fun m e => hu ⟨m, e⟩
        have hs' : c' = { c with th := setTh c.th t ⟨(c.th t).held, r⟩ } := by
          cases a <;> first | (exact absurd rfl (hl' _)) | (exact absurd rfl (hu' _)) | (cases hs; rfl)
        subst hs'
        intro u
        by_cases hut : u = t
        · subst hut
          refine ⟨?_, ?_, ?_⟩
          · intro m' hm'
            simp only [setTh, ↓reduceIte] at hm'
            exact ht.owns m' hm'
          · simpa [setTh] using ht.nodup
          · simp only [setTh, ↓reduceIte]
            have := ht.guarded
            rw [hrest] at this
            exact guardedFrom_tail g _ a r hl' hu' this
        · have hu'' := h u
          exact ⟨by simpa [setTh, if_neg hut] using hu''.owns, by simpa [setTh, if_neg hut] using hu''.nodup,
                 by simpa [setTh, if_neg hut] using hu''.guarded⟩

theorem inv_reach (g : Nat → Option Nat) (c0 c : Cfg) (h0 : Inv g c0) (hr : Reach c0 c) : Inv g c := by
  induction hr with
  | refl => exact h0
  | step t _ hs ih => exact inv_step g _ _ t ih hs

theorem guardedFrom_cons_access (g : Nat → Option Nat) (held : List Nat) (a : Act) (r : List Act) (v : Nat) (k : Kind)
    (ha : a.access = some (v, k)) :
    guardedFrom g held (a :: r) = (accessOk g held (v, k) && guardedFrom g held r) := by
  cases a <;> simp [Act.access] at ha <;> obtain ⟨rfl, rfl⟩ := ha <;> simp [guardedFrom, Act.access]

/-- what the discipline says about an access at the head of a guarded program -/
theorem guarded_head (g : Nat → Option Nat) (held : List Nat) (a : Act) (r : List Act) (v : Nat) (k : Kind)
    (ha : a.access = some (v, k)) (h : guardedFrom g held (a :: r) = true) :
    (k = .a → g v = none) ∧ (k ≠ .a → ∃ m, g v = some m ∧ m ∈ held) := by
  rw [guardedFrom_cons_access g held a r v k ha] at h
  cases k <;> cases hg : g v <;> simp_all [accessOk, heldGuard]

theorem no_race_of_inv (g : Nat → Option Nat) (c : Cfg) (h : Inv g c) : ¬ Race c := by
  rintro ⟨t1, t2, a1, a2, r1, r2, v, k1, k2, hne, h1, h2, ha1, ha2, hc⟩
  have g1 := (h t1).guarded; rw [h1] at g1
  have g2 := (h t2).guarded; rw [h2] at g2
  obtain ⟨p1, q1⟩ := guarded_head g _ a1 r1 v k1 ha1 g1
  obtain ⟨p2, q2⟩ := guarded_head g _ a2 r2 v k2 ha2 g2
  by_cases e1 : k1 = .a
  · by_cases e2 : k2 = .a
    · subst e1; subst e2; simp [conflict] at hc
    · obtain ⟨m, hm, _⟩ := q2 e2
      rw [p1 e1] at hm; cases hm
  · obtain ⟨m1, hm1, hin1⟩ := q1 e1
    by_cases e2 : k2 = .a
    · rw [p2 e2] at hm1; cases hm1
    · obtain ⟨m2, hm2, hin2⟩ := q2 e2
      rw [hm1] at hm2
      have : m1 = m2 := Option.some.inj hm2
      subst this
      have o1 := (h t1).owns m1 hin1
      have o2 := (h t2).owns m1 hin2
      rw [o1] at o2
      exact hne (Option.some.inj o2)

/-! concatenating closed, guarded call paths gives a guarded program -/

theorem guardedFrom_append (g : Nat → Option Nat) (held : List Nat) (p q : List Act) :
    guardedFrom g held (p ++ q) = (guardedFrom g held p && guardedFrom g (heldAfter held p) q) := by
  induction p generalizing held with
  | nil => simp [guardedFrom, heldAfter]
  | cons a r ih =>
    cases a <;> simp [guardedFrom, heldAfter, ih, Bool.and_assoc]

theorem guarded_flatten (g : Nat → Option Nat) (ps : List (List Act))
    (h : ∀ p ∈ ps, guardedFrom g [] p = true ∧ closed p = true) : guardedFrom g [] ps.flatten = true := by
  induction ps with
  | nil => simp [guardedFrom]
  | cons p r ih =>
    have hp := h p (by simp)
    have hc : heldAfter [] p = [] := by simpa [closed] using hp.2
    simp only [List.flatten_cons, guardedFrom_append, hp.1, hc, Bool.true_and]
    exact ih (fun q hq => h q (by simp [hq]))


/-! ### 2. sections are linearizable -/

section Lin
variable {σ α β : Type} (f : σ → α → σ × β)

theorem seqRun_append_one (s0 : σ) (l : List α) (a : α) :
    seqRun f s0 (l ++ [a]) =
      ((f (seqRun f s0 l).1 a).1, (seqRun f s0 l).2 ++ [(f (seqRun f s0 l).1 a).2]) := by
  induction l generalizing s0 with
  | nil => simp [seqRun]
  | cons x r ih => simp [seqRun, ih]

def Phase.nonIdle {σ : Type} : Phase σ → Bool
  | .idle => false
  | _ => true

structure SInv (s0 : σ) (scripts : Nat → List α) (c : Sec σ α β) : Prop where
  excl : ∀ t, (c.th t).phase.nonIdle = true → c.owner = some t
  fresh : ∀ t s, (c.th t).phase = .haveRead s → s = c.shared
  seq : seqRun f s0 c.log = (c.shared, c.outs)
  prog : ∀ t, scripts t = c.doneBy t ++ (c.th t).pending

theorem sinv_init (s0 : σ) (scripts : Nat → List α) : SInv f s0 scripts (Sec.init s0 scripts : Sec σ α β) :=
  ⟨by simp [Sec.init, Phase.nonIdle], by simp [Sec.init], by simp [Sec.init, Sec.log, Sec.outs, seqRun],
   by simp [Sec.init, Sec.doneBy, STh.pending]⟩

theorem sinv_step (s0 : σ) (scripts : Nat → List α) (c c' : Sec σ α β) (t : Nat)
    (h : SInv f s0 scripts c) (hs : Sec.step? f c t = some c') : SInv f s0 scripts c' := by
  unfold Sec.step? at hs
  have others : ∀ u, u ≠ t → (c.th t).phase.nonIdle = true → (c.th u).phase.nonIdle = false := by
    intro u hu ht
    cases hn : (c.th u).phase.nonIdle with
    | false => rfl
    | true =>
      have a := h.excl u hn; have b := h.excl t ht
      rw [a] at b; exact absurd (Option.some.inj b) hu
  cases htodo : (c.th t).todo with
  | nil => cases hph : (c.th t).phase <;> simp [htodo, hph] at hs
  | cons a rest =>
    cases hph : (c.th t).phase with
    | idle =>
      simp only [hph, htodo] at hs
      by_cases hfree : c.owner = none
      · rw [if_pos hfree] at hs; cases hs
        refine ⟨?_, ?_, h.seq, ?_⟩
        · intro u hu
          by_cases e : u = t
          · subst e; rfl
          · simp only [setSTh, if_neg e] at hu
            have := h.excl u hu; rw [hfree] at this; cases this
        · intro u s hu
          by_cases e : u = t
          · subst e; simp [setSTh] at hu
          · simp only [setSTh, if_neg e] at hu; exact h.fresh u s hu
        · intro u
          by_cases e : u = t
          · subst e
            have := h.prog u
            simpa [setSTh, Sec.doneBy, STh.pending, hph, htodo] using this
          · simpa [setSTh, if_neg e, Sec.doneBy] using h.prog u
      · rw [if_neg hfree] at hs; cases hs
    | locked =>
      simp only [hph, htodo] at hs; cases hs
      have hnon : (c.th t).phase.nonIdle = true := by rw [hph]; rfl
      refine ⟨?_, ?_, h.seq, ?_⟩
      · intro u hu
        by_cases e : u = t
        · subst e; exact h.excl u hnon
        · simp only [setSTh, if_neg e] at hu; exact h.excl u hu
      · intro u s hu
        by_cases e : u = t
        · subst e; simp [setSTh] at hu; exact hu.symm
        · simp only [setSTh, if_neg e] at hu; exact h.fresh u s hu
      · intro u
        by_cases e : u = t
        · subst e
          have := h.prog u
          simpa [setSTh, Sec.doneBy, STh.pending, hph, htodo] using this
        · simpa [setSTh, if_neg e, Sec.doneBy] using h.prog u
    | haveRead s =>
      simp only [hph, htodo] at hs; cases hs
      have hnon : (c.th t).phase.nonIdle = true := by rw [hph]; rfl
      have hs' : s = c.shared := h.fresh t s hph
      subst hs'
      refine ⟨?_, ?_, ?_, ?_⟩
      · intro u hu
        by_cases e : u = t
        · subst e; exact h.excl u hnon
        · simp only [setSTh, if_neg e] at hu; exact h.excl u hu
      · intro u s' hu
        by_cases e : u = t
        · subst e; simp [setSTh] at hu
        · simp only [setSTh, if_neg e] at hu
          have := others u e hnon
          rw [hu] at this; simp [Phase.nonIdle] at this
      · have hq := h.seq
        simp only [Sec.log, Sec.outs, List.map_append, List.map_cons, List.map_nil] at hq ⊢
        rw [seqRun_append_one, hq]
      · intro u
        by_cases e : u = t
        · subst e
          have := h.prog u
          simp [setSTh, Sec.doneBy, STh.pending, hph, htodo, List.filter_append] at this ⊢
          rw [this]
        · have := h.prog u
          have hne : (t == u) = false := by simp [Ne.symm e]
          simpa [setSTh, if_neg e, Sec.doneBy, List.filter_append, hne] using this
    | written =>
      simp only [hph, htodo] at hs; cases hs
      have hnon : (c.th t).phase.nonIdle = true := by rw [hph]; rfl
      refine ⟨?_, ?_, h.seq, ?_⟩
      · intro u hu
        by_cases e : u = t
        · subst e; simp [setSTh, Phase.nonIdle] at hu
        · simp only [setSTh, if_neg e] at hu
          have := others u e hnon
          rw [hu] at this; cases this
      · intro u s hu
        by_cases e : u = t
        · subst e; simp [setSTh] at hu
        · simp only [setSTh, if_neg e] at hu; exact h.fresh u s hu
      · intro u
        by_cases e : u = t
        · subst e
          have := h.prog u
          simpa [setSTh, Sec.doneBy, STh.pending, hph, htodo] using this
        · simpa [setSTh, if_neg e, Sec.doneBy] using h.prog u

theorem sinv_reach (s0 : σ) (scripts : Nat → List α) (c : Sec σ α β)
    (hr : Sec.Reach f (Sec.init s0 scripts) c) : SInv f s0 scripts c := by
  induction hr with
  | refl => exact sinv_init f s0 scripts
  | step t _ hs ih => exact sinv_step f s0 scripts _ _ t ih hs

end Lin

/-! ### 3. counters -/

theorem sum_set_pred (l : List Nat) (t k : Nat) (h : l[t]? = some (k + 1)) : (l.set t k).sum + 1 = l.sum := by
  induction l generalizing t with
  | nil => simp at h
  | cons x r ih =>
    cases t with
    | zero => simp at h; subst h; simp [List.sum_cons]; omega
    | succ t' =>
      simp at h
      have := ih t' h
      simp [List.sum_cons]; omega

theorem ctr_step (c c' : Ctr) (t : Nat) (hs : Ctr.step? c t = some c') :
    c'.count + c'.rem.sum = c.count + c.rem.sum := by
  unfold Ctr.step? at hs
  split at hs
  · rename_i k hk
    cases hs
    have := sum_set_pred c.rem t k hk
    simp only []; omega
  · cases hs

theorem ctr_reach (c0 c : Ctr) (hr : Ctr.Reach c0 c) : c.count + c.rem.sum = c0.count + c0.rem.sum := by
  induction hr with
  | refl => rfl
  | step t _ hs ih => rw [ctr_step _ _ t hs, ih]

/-! ### the cache -/

theorem getOrCreate_self (c : Cache) (k : Nat) : (getOrCreate c k).1.table.lookup k = some (getOrCreate c k).2 := by
  unfold getOrCreate
  cases h : c.table.lookup k with
  | some v => simp [h]
  | none => simp [List.lookup_cons]

theorem getOrCreate_stable (c : Cache) (k k' v : Nat) (h : c.table.lookup k = some v) :
    (getOrCreate c k').1.table.lookup k = some v := by
  unfold getOrCreate
  cases h' : c.table.lookup k' with
  | some w => simpa using h
  | none =>
    have hne : (k == k') = false := by
      cases e : (k == k') with
      | false => rfl
      | true => have : k = k' := by simpa using e
                subst this; rw [h] at h'; cases h'
    simp [List.lookup_cons, hne, h]

theorem seqRun_stable (c : Cache) (ks : List Nat) (k v : Nat) (h : c.table.lookup k = some v) :
    (seqRun getOrCreate c ks).1.table.lookup k = some v := by
  induction ks generalizing c with
  | nil => simpa [seqRun] using h
  | cons a r ih => simp only [seqRun]; exact ih _ (getOrCreate_stable c k a v h)

/-- every result of a sequential run is what the final table holds for that key -/
theorem seqRun_results_in_final (c : Cache) (ks : List Nat) (i : Nat) (hi : i < ks.length) (v : Nat)
    (hv : (seqRun getOrCreate c ks).2[i]? = some v) : (seqRun getOrCreate c ks).1.table.lookup ks[i] = some v := by
  induction ks generalizing c i with
  | nil => simp at hi
  | cons a r ih =>
    cases i with
    | zero =>
      simp [seqRun] at hv
      subst hv
      simp only [seqRun, List.getElem_cons_zero]
      exact seqRun_stable _ r a _ (getOrCreate_self c a)
    | succ i' =>
      simp [seqRun] at hv
      simp only [seqRun, List.getElem_cons_succ]
      exact ih _ i' (by simpa using hi) hv

end Gpc.Conc
