/* C05 driver: hash map scripts (128-bit keys and byte-string keys; pointer and inline elements;
 * heap and arena allocators). Elements carry the id given by the script; the destructor logs it. */
#include <gpc/hashmap.h>
#include <gpc/memory.h>
#include "proto.h"

static size_t dlog[65536]; static size_t ndlog;
static size_t esize;
static size_t id_of(const void* elem)
{
    if (esize == 0) return (size_t)(uintptr_t)elem - 1;
    uint32_t v; memcpy(&v, elem, sizeof v); return v;
}
static void destructor(void* e) { if (ndlog < 65536) dlog[ndlog++] = e ? id_of(e) : 999999999; }

static GPUint128 parse_key(const char* hex)
{
    uint64_t hi = 0, lo = 0;
    for (int i = 0; i < 16; i++) hi = hi * 16 + (uint64_t)vp_hexval(hex[i]);
    for (int i = 16; i < 32; i++) lo = lo * 16 + (uint64_t)vp_hexval(hex[i]);
    return gp_u128(hi, lo);
}

#define MAXK 8192
static struct { char key[80]; void* ptr; } ktab[MAXK]; static size_t nk;
static void remember(const char* k, void* p)
{
    for (size_t i = 0; i < nk; i++) if (!strcmp(ktab[i].key, k)) { ktab[i].ptr = p; return; }
    if (nk < MAXK) { strncpy(ktab[nk].key, k, 79); ktab[nk].ptr = p; nk++; }
}
static void* recall(const char* k) { for (size_t i = 0; i < nk; i++) if (!strcmp(ktab[i].key, k)) return ktab[i].ptr; return NULL; }

static void print_dlog(int sorted)
{
    if (sorted) {
        for (size_t i = 1; i < ndlog; i++) { size_t x = dlog[i], j = i; while (j && dlog[j-1] > x) { dlog[j] = dlog[j-1]; j--; } dlog[j] = x; }
        fputs("d:", stdout); if (!ndlog) fputs("-", stdout);
    } else if (ndlog) fputs(" d:", stdout);
    for (size_t i = 0; i < ndlog; i++) printf("%s%zu", i ? "," : "", dlog[i]);
    ndlog = 0;
}

int main(void)
{
    setvbuf(stdout, NULL, _IOFBF, 1 << 16);
    GPMap* map = NULL; GPArena arena; int use_arena = 0;
    uint8_t* ebuf = malloc(64);
    while (vp_next()) {
        if (vp_ntok < 2 || strcmp(vp_tok[0], "map")) { puts("bad-op"); continue; }
        char** t = vp_tok + 1; int n = vp_ntok - 1;
        if (!strcmp(t[0], "new") && n == 4) {
            esize = strtoull(t[1], NULL, 10);
            use_arena = !strcmp(t[3], "arena");
            if (use_arena) arena = gp_arena_new(256);
            GPMapInitializer init = { .element_size = esize, .capacity = strtoull(t[2], NULL, 10), .destructor = destructor };
            map = gp_map_new(use_arena ? (GPAllocator*)&arena : gp_heap, &init);
            nk = 0; ndlog = 0;
            printf("ok len=%zu\n", *(size_t*)map);      /* first field of struct gp_map: number of slots */
        } else if ((!strcmp(t[0], "put") || !strcmp(t[0], "hput")) && n == 3 && map) {
            size_t id = strtoull(t[2], NULL, 10);
            const void* val;
            if (esize == 0) val = (void*)(uintptr_t)(id + 1);
            else { memset(ebuf, 0xEE, 64); uint32_t v = (uint32_t)id; memcpy(ebuf, &v, sizeof v); val = ebuf; }
            void* p;
            if (t[0][0] == 'h') { size_t kl; uint8_t* kb = vp_hex(t[1], &kl); p = gp_hash_map_put((GPHashMap*)map, kb, kl, val); free(kb); }
            else p = gp_map_put(map, parse_key(t[1]), val);
            remember(t[1], p);
            printf("e%zu", p ? id_of(p) : 999999999); print_dlog(0); puts("");
        } else if (!strcmp(t[0], "hputnull") && n == 2 && map && esize == 0) {
            /* a pointer map may hold a null pointer: what put returns is that element */
            size_t kl; uint8_t* kb = vp_hex(t[1], &kl);
            void* p = gp_hash_map_put((GPHashMap*)map, kb, kl, NULL); free(kb);
            puts(p == NULL ? "returned-null" : "returned-nonnull");
        } else if ((!strcmp(t[0], "get") || !strcmp(t[0], "hget")) && n == 2 && map) {
            void* p;
            if (t[0][0] == 'h') { size_t kl; uint8_t* kb = vp_hex(t[1], &kl); p = gp_hash_map_get((GPHashMap*)map, kb, kl); free(kb); }
            else p = gp_map_get(map, parse_key(t[1]));
            if (!p) fputs("none", stdout);
            else { printf("e%zu", id_of(p)); if (recall(t[1]) != p) fputs(" not-the-pointer-put-returned", stdout); }
            print_dlog(0); puts("");
        } else if ((!strcmp(t[0], "remove") || !strcmp(t[0], "hremove")) && n == 2 && map) {
            bool r;
            if (t[0][0] == 'h') { size_t kl; uint8_t* kb = vp_hex(t[1], &kl); r = gp_hash_map_remove((GPHashMap*)map, kb, kl); free(kb); }
            else r = gp_map_remove(map, parse_key(t[1]));
            printf("%d", r); print_dlog(0); puts("");
        } else if (!strcmp(t[0], "delete") && n == 1 && map) {
            gp_map_delete(map); map = NULL;
            if (use_arena) gp_arena_delete(&arena);
            print_dlog(1); puts("");
        } else if (!strcmp(t[0], "end")) { puts("end"); fflush(stdout); }
        else puts("bad-op");
    }
    return 0;
}
