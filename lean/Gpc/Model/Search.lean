/-
Model of the search / comparison primitives anchored by C08 (src/bytes.c, src/string.c).
Buffers are `List UInt8`; every read goes through `rd`, which fails (`none`) outside the buffer,
so that "reads only the given buffers" is the statement "the model never returns `none`".
-/
namespace Gpc.Search

abbrev Bytes := List UInt8

/-- checked read of one byte -/
def rd (b : Bytes) (i : Nat) : Option UInt8 := b[i]?

/-- `memcmp(h + i, n, |n|) == 0` with checked reads of `h[i .. i+|n|)` -/
def cmpAt (h : Bytes) (i : Nat) : Bytes → Option Bool
  | [] => some true
  | c :: n => match rd h i with
    | none => none
    | some x => match cmpAt h (i + 1) n with
      | none => none
      | some r => some (x == c && r)

/-! ### glibc contracts (trusted, validated by the correspondence run) -/

/-- contract of `memmem(h, |h|, n, |n|)`: offset of the first occurrence -/
def memmem : Bytes → Bytes → Option Nat
  | [], n => if n.isEmpty then some 0 else none
  | a :: h, n => if n.isPrefixOf (a :: h) then some 0 else (memmem h n).map (· + 1)

/-- contract of `strchr(set, c) != NULL` for a NUL-terminated `set`: the terminator matches too -/
def strchrHit (set : Bytes) (c : UInt8) : Bool := c == 0 || set.contains c

/-! ### gp_bytes_find_first -/

/-- `gp_memmem((char*)haystack + start, haystack_size - start, needle, needle_size)`;
precondition `start ≤ |h|` (otherwise the pointer arithmetic is already out of bounds) -/
def findFirst (h n : Bytes) (start : Nat) : Option (Option Nat) :=
  if start ≤ h.length then some ((memmem (h.drop start) n).map (· + start)) else none

/-! ### gp_bytes_find_last (as repaired: the candidate loop no longer skips a position) -/

/-- `gp_memchr_r(ptr_r, ch, count)`: scans `ptr-1, ptr-2, …, ptr-count`; result is the index found.
Outer `none` = a read outside the buffer. -/
def memchrR (h : Bytes) (ch : UInt8) : (ptr count : Nat) → Option (Option Nat)
  | _, 0 => some none
  | 0, _ + 1 => none                      -- would read h[-1]
  | ptr + 1, count + 1 =>
    match rd h ptr with
    | none => none
    | some x => if x == ch then some (some ptr) else memchrR h ch ptr count

/-- the `while ((data = gp_memchr_r(data, *needle, to_be_searched)))` loop; `fuel` bounds the
number of candidates (each round strictly decreases `data`). -/
def findLastLoop (h n : Bytes) (n0 : UInt8) : (fuel data tbs : Nat) → Option (Option Nat)
  | 0, _, _ => some none
  | fuel + 1, data, tbs =>
    match memchrR h n0 data tbs with
    | none => none
    | some none => some none
    | some (some d) =>
      match cmpAt h d n with
      | none => none
      | some true => some (some d)
      | some false => findLastLoop h n n0 fuel d d     -- to_be_searched = data - haystack

def findLast (h n : Bytes) : Option (Option Nat) :=
  match n with
  | [] => some none
  | n0 :: _ =>
    if n.length > h.length ∨ h.length = 0 then some none else
    let needleLast := n.length - 1
    findLastLoop h n n0 (h.length + 1) (h.length - needleLast) (h.length - needleLast)

/-! ### gp_bytes_count -/

def countLoop (h n : Bytes) : (fuel i count : Nat) → Option Nat
  | 0, _, count => some count
  | fuel + 1, i, count =>
    match findFirst h n i with
    | none => none
    | some none => some count
    | some (some j) => countLoop h n fuel (j + 1) (count + 1)

def count (h n : Bytes) : Option Nat := countLoop h n (h.length + 1) 0 0

/-! ### gp_bytes_find_first_of / _not_of (as repaired: a NUL byte is not a member of any set) -/

def firstOfLoop (h set : Bytes) (want : Bool) : (fuel i : Nat) → Option (Option Nat)
  | 0, _ => some none
  | fuel + 1, i =>
    if i < h.length then
      match rd h i with
      | none => none
      | some c => if (c != 0 && strchrHit set c) == want then some (some i)
                  else firstOfLoop h set want fuel (i + 1)
    else some none

def findFirstOf (h set : Bytes) (start : Nat) : Option (Option Nat) :=
  firstOfLoop h set true (h.length - start) start
def findFirstNotOf (h set : Bytes) (start : Nat) : Option (Option Nat) :=
  firstOfLoop h set false (h.length - start) start

/-! ### gp_bytes_equal, gp_bytes_equal_case -/

def equal (a b : Bytes) : Bool := a.length == b.length && a == b   -- memcmp contract

def lowerAscii (c : UInt8) : UInt8 := if 65 ≤ c ∧ c ≤ 90 then c + 32 else c

def equalCaseLoop : Bytes → Bytes → Bool
  | [], [] => true
  | x :: a, y :: b => if lowerAscii x != lowerAscii y then false else equalCaseLoop a b
  | _, _ => false

def equalCase (a b : Bytes) : Bool := if a.length != b.length then false else equalCaseLoop a b

end Gpc.Search
