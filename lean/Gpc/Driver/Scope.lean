import Gpc.Model.Proto
import Gpc.Model.Scope
namespace Gpc.Driver
open Gpc.Proto Gpc.Arena Gpc.Scope

structure ScopeSt where
  f : Factory := newFactory
  live : List (Nat × Addr) := []          -- (scope id, record address), innermost first
  dead : Bool := false                    -- the model followed a garbage pointer

def showEvs (evs : List Ev) : String :=
  if evs.isEmpty then "-" else
  " ".intercalate (evs.map fun e => match e with | Ev.call t => s!"c{t}" | Ev.release i => s!"r{i}")

def scopeStep1 (s : ScopeSt) (toks : List String) : ScopeSt × String :=
  if s.dead then (s, "model-undefined") else
  match toks with
  | ["begin", _size] =>
    match begin s.f with
    | none => ({ s with dead := true }, "GARBAGE")
    | some (f', p) => ({ s with f := f', live := (s.f.nextId, p) :: s.live }, s!"s{s.f.nextId}")
  | ["alloc", _k, _n] => (s, "ok")
  | ["defer", k, tag] =>
    match k.toNat?, tag.toNat? with
    | some k, some tag =>
      match s.live.find? (·.1 == k) with
      | none => (s, "bad-op")
      | some (_, p) => match defer s.f p tag with
        | none => ({ s with dead := true }, "GARBAGE")
        | some f' => ({ s with f := f' }, "ok")
    | _, _ => (s, "bad-op")
  | ["end", k] =>
    match k.toNat? with
    | none => (s, "bad-op")
    | some k =>
      match s.live.findIdx? (·.1 == k), s.live.find? (·.1 == k) with
      | some i, some (_, p) =>
        match endScope s.f p (s.live.length + 1) with
        | none => ({ s with dead := true }, "GARBAGE")
        | some (f', evs) => ({ s with f := f', live := s.live.drop (i + 1) }, showEvs evs)
      | _, _ => (s, "bad-op")
  | ["last"] | ["last", "null"] =>
    match lastScope s.f with
    | none => (s, "GARBAGE")
    | some none => (s, "fallback")
    | some (some a) => match s.live.find? (·.2 == a) with
      | some (k, _) => (s, s!"s{k}")
      | none => (s, "GARBAGE")
  | ["fresh"] =>      -- a thread that has never begun a scope: nothing is live
    (s, match lastScope newFactory with | some none => "fallback" | _ => "GARBAGE")
  | ["exit"] =>
    match threadExit s.f (s.live.length + 1) with
    | none => ({ s with dead := true }, "GARBAGE")
    | some evs => ({ s with live := [] }, showEvs evs)
  | _ => (s, "bad-op")

/-- per-thread states, keyed by the thread number of the script line -/
def scopeStep (ss : List (Nat × ScopeSt)) (toks : List String) : List (Nat × ScopeSt) × String :=
  match toks with
  | ["end"] => ([], "end")
  | tid :: rest =>
    match tid.toNat? with
    | none => (ss, "bad-op")
    | some t =>
      let cur := ((ss.find? (·.1 == t)).map (·.2)).getD {}
      let (cur', out) := scopeStep1 cur rest
      ((t, cur') :: ss.filter (·.1 != t), out)
  | _ => (ss, "bad-op")

end Gpc.Driver
