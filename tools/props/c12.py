"""C12 — full case mapping follows SpecialCasing incl. Turkic/Lithuanian and final sigma."""
import os, sys
sys.path.insert(0, os.path.dirname(os.path.abspath(__file__)))
import vlib
import casefull_ref as CR
import gen_c12

hx = lambda b: vlib.hexs(bytes(b))


class Impl:
    """the narrower context rules of src/unicode.c, used ONLY to classify a deviation from the standard as one of the
    recorded known findings (predicates come from the extraction of this run)"""
    def __init__(self, preds):
        self.p = {k: sorted(v) for k, v in preds.items()}

    def has(self, name, c):
        return any(lo <= c <= hi for lo, hi in self.p.get(name, []))


def lower_var(cps, loc, fams, im):
    u = CR.ucd(); L = CR.lang(loc); out = []; i = 0; n = len(cps)
    while i < n:
        c = cps[i]; la = cps[i + 1] if i + 1 < n else 0; lb = cps[i - 1] if i > 0 else 0
        if c == 0x3A3:
            if "final-sigma-context" in fams:
                if not im.has("greek_letter", lb) and not im.has("diatrical", lb): fin = False
                else:
                    j = i + 1
                    while j < n and im.has("diatrical", cps[j]): j += 1
                    fin = not im.has("greek_letter", cps[j] if j < n else 0)
            else: fin = CR.final_sigma(cps, i)
            out.append(0x3C2 if fin else 0x3C3); i += 1; continue
        if L == "lt":
            if c in (0x49, 0x4A, 0x12E):
                above = im.has("lith_accent", la) if "lt-more-above" in fams else CR.more_above(cps, i)
                out.append({0x49: 0x69, 0x4A: 0x6A, 0x12E: 0x12F}[c])
                if above: out.append(0x307)
                i += 1; continue
            if c == 0xCC: out += [0x69, 0x307, 0x300]; i += 1; continue
            if c == 0xCD: out += [0x69, 0x307, 0x301]; i += 1; continue
            if c == 0x128: out += [0x69, 0x307, 0x303]; i += 1; continue
        if L in ("tr", "az"):
            if "tr-dot-context" in fams:
                if c == 0x49:
                    if la == 0x307: out.append(0x69); i += 2; continue
                    out.append(0x131); i += 1; continue
                if c == 0x130: out.append(0x69); i += 1; continue
            else:
                if c == 0x130: out.append(0x69); i += 1; continue
                if c == 0x307 and CR.after_I(cps, i): i += 1; continue
                if c == 0x49 and not CR.before_dot(cps, i): out.append(0x131); i += 1; continue
        out += u.lower1(c); i += 1
    return out


def upper_var(cps, loc, fams, im):
    u = CR.ucd(); L = CR.lang(loc); out = []
    cps = list(cps)
    i = 0
    while i < len(cps):
        c = cps[i]; n = len(cps)
        if "iota-reordering" in fams and c == 0x345 and i + 1 < n and im.has("diatrical", cps[i + 1]):
            # U+0345 steps behind the combining mark that follows it; the mark is copied as it is
            out.append(cps[i + 1]); cps[i + 1] = 0x345; i += 1; continue
        if L == "lt":
            if "lt-soft-dotted-context" in fams:
                if i + 1 < n and cps[i + 1] == 0x307 and im.has("soft_dotted", c):
                    out += (u.upper1(c)); i += 2; continue
            elif c == 0x307 and CR.after_soft_dotted(cps, i): i += 1; continue
        if L in ("tr", "az") and c == 0x69: out.append(0x130); i += 1; continue
        out += u.upper1(c); i += 1
    return out


def cap_var(cps, loc, fams, im):
    if not cps: return []
    u = CR.ucd(); L = CR.lang(loc)
    c, rest = cps[0], list(cps[1:])
    if "iota-reordering" in fams and c == 0x345 and rest and im.has("diatrical", rest[0]):
        j = 0
        while j < len(rest) and im.has("diatrical", rest[j]): j += 1
        return rest[:j] + [0x399] + rest[j:]
    return CR.to_title_first(cps, loc)


FAMILIES = ["final-sigma-context", "iota-reordering", "lt-more-above", "lt-soft-dotted-context", "tr-dot-context"]
REF = {"up": CR.to_upper, "lo": CR.to_lower, "cap": CR.to_title_first}
VAR = {"up": upper_var, "lo": lower_var, "cap": cap_var}


def make_oracle(im):
    import itertools
    def oracle(case, out):
        t = case[0].split()
        if t[1] == "stale": t = [t[0]] + t[3:]
        fn, loc = t[1], ("" if t[2] == "-" else t[2])
        cps = CR.dec(b"" if t[4] == "-" else bytes.fromhex(t[4]))
        o = out[0].split()
        try:
            got = CR.dec(b"" if o[0] == "-" else bytes.fromhex(o[0]))
        except Exception:
            return "%s: result %s is not valid UTF-8" % (case[0], o[0])
        want = REF[fn](cps, loc)
        if got == want:
            return None
        for k in (1, 2, 3):
            for fams in itertools.combinations(FAMILIES, k):
                if VAR[fn](cps, loc, set(fams), im) == got:
                    return "DEVIATION[%s] %s of %s (locale %r) = %s; Unicode default full case conversion: %s" % (
                        "+".join(fams), fn, " ".join("%04X" % c for c in cps), loc, " ".join("%04X" % c for c in got),
                        " ".join("%04X" % c for c in want))
        return "%s of %s (locale %r) = %s; Unicode default full case conversion: %s" % (
            fn, " ".join("%04X" % c for c in cps), loc, " ".join("%04X" % c for c in got), " ".join("%04X" % c for c in want))
    return oracle


def gen(ctx):
    r = ctx.rng; quick = ctx.tier == "quick"
    u = CR.ucd()
    special = sorted(set(list(u.full["Uppercase_Mapping_full"]) + list(u.full["Lowercase_Mapping_full"]) + list(u.full["Titlecase_Mapping_full"])))
    greek = [0x3A3, 0x3C3, 0x3C2, 0x391, 0x3B1, 0x3A9, 0x3C9, 0x399, 0x1FB3, 0x1F80, 0x386, 0x3AC]
    marks = [0x300, 0x301, 0x303, 0x307, 0x308, 0x323, 0x328, 0x342, 0x345, 0x1DC0, 0xAD, 0x27, 0x2E, 0x3A, 0xB7, 0x2019]
    ilike = [0x49, 0x69, 0x130, 0x131, 0x4A, 0x6A, 0x12E, 0x12F, 0xCC, 0xCD, 0x128, 0x1E2D]
    plain = [0x61, 0x41, 0x7A, 0x20, 0x31, 0xE4, 0xC4, 0x416, 0x436, 0x10400, 0x10428, 0x1E900, 0x4E00, 0x1F600]
    hist = {"special": 0, "greek": 0, "marks": 0, "ilike": 0, "plain": 0}
    def rs(nmax):
        out = []
        for _ in range(r.randrange(0, nmax + 1)):
            k = r.random()
            if k < 0.25: out.append(r.choice(special)); hist["special"] += 1
            elif k < 0.42: out.append(r.choice(greek)); hist["greek"] += 1
            elif k < 0.6: out.append(r.choice(marks)); hist["marks"] += 1
            elif k < 0.78: out.append(r.choice(ilike)); hist["ilike"] += 1
            else: out.append(r.choice(plain)); hist["plain"] += 1
        return out
    cases = []
    # every special code point alone and between letters, every locale
    for c in special + ilike + [0x3A3, 0x345, 0x307]:
        for loc in ("-", "tr", "az", "lt", "en"):
            for fn in ("up", "lo", "cap"):
                if quick and r.random() > 0.25: continue
                cases.append(["cf %s %s %d %s" % (fn, loc, r.choice([0, 1, 16]), hx(CR.enc([0x61, c, 0x62] if r.random() < 0.5 else [c])))])
    # every context-sensitive code point next to every mark / dot / sigma, in every locale (the context rules look one
    # code point ahead or behind)
    ctx_chars = ilike + [0x3A3, 0x345, 0x307, 0x6A, 0x1E2D, 0x3C3]
    for x in ctx_chars:
        for y in marks + [0x49, 0x69, 0x3A3, 0x391, 0x61]:
            for loc in ("-", "tr", "az", "lt"):
                for fn in ("up", "lo", "cap"):
                    if quick and r.random() > 0.34: continue
                    for cps in ([x, y], [0x391, x, y, 0x61], [y, x]):
                        cases.append(["cf %s %s %d %s" % (fn, loc, r.choice([0, 4]), hx(CR.enc(cps)))])
    # a context-sensitive code point followed by TWO or three marks and then a letter (the context rules skip runs of marks)
    trip = []
    for x in ctx_chars:
        for m1 in marks:
            for m2 in marks:
                for loc in ("-", "tr", "lt"):
                    trip.append((x, m1, m2, loc))
    r.shuffle(trip)
    for x, m1, m2, loc in trip[:(2500 if quick else len(trip))]:
        tail = r.choice([[0x3B1], [0x61], [0x391], []])
        mid = [m1, m2] + ([r.choice(marks)] if r.random() < 0.3 else [])
        for fn in (("lo",) if quick else ("up", "lo", "cap")):
            cases.append(["cf %s %s %d %s" % (fn, loc, r.choice([0, 4]), hx(CR.enc([r.choice([0x391, 0x61, 0x49]), x] + mid + tail)))])
    # the string ends with a context-sensitive code point and stale bytes lie behind its end (what gp_str_slice or a
    # shorter copy into a used buffer leave there): they are not part of the string
    stales = [[0x3B1], [0x61], [0x307], [0x300], [0x301, 0x3B1], [0x345], [0x69, 0x307]]
    for x in ctx_chars:
        for st in stales:
            for loc in ("-", "tr", "lt"):
                for fn in ("up", "lo", "cap"):
                    if quick and r.random() > 0.5: continue
                    body = r.choice([[x], [0x391, x], [0x61, x], [0x49, x], [0x391, x, r.choice(marks)], [0x61, x, r.choice(marks), r.choice(marks)]])
                    cases.append(["cf stale %s %s %s %d %s" % (hx(CR.enc(st)), fn, loc, r.choice([0, 4, 16]), hx(CR.enc(body)))])
    # ... and with combining marks between the context-sensitive code point and the end of the string
    for x in ctx_chars:
        for m in marks:
            for st in ([0x3B1], [0x61], [0x307]):
                for fn in ("up", "lo", "cap"):
                    if quick and r.random() > 0.5: continue
                    body = [r.choice([0x391, 0x61]), x, m] + ([r.choice(marks)] if r.random() < 0.3 else [])
                    cases.append(["cf stale %s %s %s %d %s" % (hx(CR.enc(st)), fn, r.choice(["-", "-", "tr", "lt"]), r.choice([0, 16]), hx(CR.enc(body)))])
    # ordinary Greek words: final sigma in word-final position
    for w in ("ΟΔΥΣΣΕΥΣ", "ΣΟΦΟΣ ΑΝΗΡ", "ΑΣ. ΒΣ, ΓΣ", "ΦΙΛΟΣ", "Σ", "ΑΣΑ ΣΑΣ", "ΛΌΓΟΣ"):
        cases.append(["cf lo - 4 " + hx(w.encode())])
    for _ in range(6000 if quick else 200000):
        cps = rs(r.choice([2, 3, 4, 6, 10, 40]))
        cases.append(["cf %s %s %d %s" % (r.choice(["up", "lo", "cap"]), r.choice(["-", "-", "en", "tr", "az", "lt"]),
                                          r.choice([0, 1, 4, 64]), hx(CR.enc(cps)))])
    # many expanding code points in one string
    for k in (5, 27, 64, 300):
        cases.append(["cf up - 4 " + hx(CR.enc([0xDF] * k))])
        cases.append(["cf lo lt 4 " + hx(CR.enc([0xCC] * k))])
    ctx.extra_cov["alphabet_draws"] = hist
    return cases


def run(ctx):
    ctx.rules.append("T-gen: gp_str_to_upper_full / to_lower_full / capitalize / gp_wcs_fold_utf8 executed on EVERY single code "
                     "point under the locales '', tr, az, lt (tables regenerated, kernel-checked against the vendored UCD); "
                     "correspondence: strings over an alphabet over-representing SpecialCasing code points, Greek letters, "
                     "combining marks and case-ignorable punctuation, i/I/U+0130/U+0131/U+0307, 0..40 code points, every "
                     "locale, destination capacities 0/1/4/64, up to 300 expanding code points; non-trivial = non-empty string")
    ctx.assumptions += ["UCD vendored from perl 5.36 (Unicode 14.0)", "inputs are valid UTF-8",
                        "locale_code is given explicitly (NULL would read the process locale)"]
    ext = ctx.build_harness("c12_extract", exclude=("unicode",), san=False, tag="nosan", extra=("-O1",))
    rc, out, err = vlib.sh([ext], timeout=600)
    if rc != 0:
        raise vlib.InfraError("c12_extract failed: " + err[-500:])
    t, preds, problems, changed = gen_c12.write_generated(out)
    ctx.extra_cov["generated_tables_changed"] = changed
    ctx.extra_cov["single_code_point_calls"] = 1112064 * 15
    ctx.exhaustive = True
    for l in problems[:5]:
        ctx.add_witness("t-gen", ["cf extract"], [l], [], "az and tr disagree on a single code point: " + l)
    spec = gen_c12.ucd_tables()
    names = {"Upper": "up", "Lower": "lo", "Title": "cap"}
    for k, d in spec.items():
        if k.startswith("Fold"): continue
        g = t.get(k, {})
        for c in sorted(set(d) | set(g)):
            if d.get(c) != g.get(c):
                loc = {"N": "-", "Tr": "tr", "Lt": "lt"}[k[5:]]
                ctx.add_witness("t-gen", ["cf %s %s 4 %s" % (names[k[:5]], loc, hx(CR.enc([c])))], [], [],
                                "%s of U+%04X alone under locale %s is %s, the Unicode full mapping is %s" % (
                                    k[:5], c, loc, g.get(c, "its simple mapping"), d.get(c, "its simple mapping")))
                break
    exe = ctx.build_harness("c12")
    ctx.build_model()
    ctx.prove()
    cases = ctx.replay_cases if ctx.replay_cases is not None else (vlib.load_corpus("C12") + gen(ctx))
    ctx.correspond("full-case-strings", exe, cases, oracle=make_oracle(Impl(preds)),
                   nontrivial=lambda c: c[0].split()[-1] != "-",
                   compare=lambda a, b: [x.split()[0] for x in a] == [x.split()[0] for x in b])
