/-
Model of the bounded output string of the printf implementation (src/pfstring.h) and of the helpers
that write through it (src/printf.c: precision zero-fill, padding; src/conversions.c: integer
writers and the digit-block writers of the float converter), anchored by C10.

`data` is the destination: exactly `capacity` bytes.  `length` keeps counting past the capacity (it
becomes the return value).  Every write is a *checked* primitive: it answers `none` when it would
touch a byte outside the destination, so "no byte outside the first n bytes is written" is "no
operation ever answers `none`".
-/
namespace Gpc.PF

abbrev Bytes := List UInt8

structure PF where
  data : Bytes
  length : Nat
deriving Repr, DecidableEq

def PF.cap (p : PF) : Nat := p.data.length

/-- `memcpy(data + off, src, |src|)`; an empty copy touches nothing wherever it points -/
def wr (d : Bytes) (off : Nat) (src : Bytes) : Option Bytes :=
  if src.length = 0 then some d
  else if off + src.length ≤ d.length then some (d.take off ++ src ++ d.drop (off + src.length))
  else none

/-- `memmove(data + dst, data + src, n)` -/
def mv (d : Bytes) (dst src n : Nat) : Option Bytes :=
  if n = 0 then some d
  else if dst + n ≤ d.length ∧ src + n ≤ d.length then
    some (d.take dst ++ (d.drop src).take n ++ d.drop (dst + n))
  else none

/-- `pf_capacity_left` -/
def capLeft (p : PF) : Nat := if p.length ≥ p.cap then 0 else p.cap - p.length

/-- `pf_limit` -/
def limit (p : PF) (x : Nat) : Nat := min (capLeft p) x

/-- `pf_concat` -/
def concat (p : PF) (src : Bytes) : Option PF := do
  let d ← wr p.data p.length (src.take (limit p src.length))
  pure { data := d, length := p.length + src.length }

/-- `pf_pad` -/
def pad (p : PF) (c : UInt8) (n : Nat) : Option PF := do
  let d ← wr p.data p.length (List.replicate (limit p n) c)
  pure { data := d, length := p.length + n }

/-- `pf_push_char` -/
def push (p : PF) (c : UInt8) : Option PF := do
  let d ← if limit p 1 ≠ 0 then wr p.data p.length [c] else some p.data
  pure { data := d, length := p.length + 1 }

/-- the `memmove` of `pf_insert_pad`: the tail `[i, real_length)` moves right by `n`, as far as it fits -/
def insertPadMove (p : PF) (i n : Nat) : Option Bytes :=
  let realLength := min p.length p.cap
  let cap := p.cap - i
  let len := realLength - i
  let uncut := len + n
  let clipped := min cap uncut
  let overflowed := uncut - clipped
  let maxMove := len - overflowed
  if i + n < p.cap then mv p.data (i + n) i maxMove else some p.data

/-- the `memset` of `pf_insert_pad` -/
def insertPadFill (p : PF) (d : Bytes) (i : Nat) (c : UInt8) (n : Nat) : Option Bytes :=
  let realLength := min p.length p.cap
  let clipped := min (p.cap - i) (realLength - i + n)
  wr d i (List.replicate (min n clipped) c)

/-- `pf_insert_pad(me, i, c, n)` -/
def insertPad (p : PF) (i : Nat) (c : UInt8) (n : Nat) : Option PF :=
  if i > min p.length p.cap then some { p with length := p.length + n } else do
    let d ← insertPadMove p i n
    let d ← insertPadFill p d i c n
    pure { data := d, length := p.length + n }

/-! ### integer writers (src/conversions.c) -/

def digitChar (_base : Nat) (upper : Bool) (d : Nat) : UInt8 :=
  if d < 10 then UInt8.ofNat (48 + d) else UInt8.ofNat ((if upper then 55 else 87) + d)

/-- the digits of `x`, lowest first, as the `do … while (x)` loops produce them -/
def revDigits (base : Nat) (upper : Bool) (fuel x : Nat) : Bytes :=
  match fuel with
  | 0 => []
  | fuel + 1 =>
    let d := digitChar base upper (x % base)
    if x / base = 0 then [d] else d :: revDigits base upper fuel (x / base)

/-- digits of a 64-bit value, highest first -/
def digits (base : Nat) (upper : Bool) (x : Nat) : Bytes := (revDigits base upper 64 x).reverse

/-- `pf_str_reverse_copy(out, buf, length, max)` at offset `off`: at most `max` digits, then a
terminator if there is room -/
def reverseCopy (d : Bytes) (off : Nat) (ds : Bytes) (max : Nat) : Option Bytes := do
  let d ← wr d off (ds.take (min max ds.length))
  if ds.length < max then wr d (off + ds.length) [0] else some d

/-- `pf_utoa / pf_otoa / pf_xtoa / pf_Xtoa (n, out, x)`: writes at `off`, returns the number of digits.
The decimal writer has a direct path (`n >= 10 && x < 10^9`) that writes all digits and no terminator. -/
def utoaAt (d : Bytes) (off n : Nat) (base : Nat) (upper : Bool) (x : Nat) : Option (Bytes × Nat) :=
  let ds := digits base upper x
  if base = 10 ∧ n ≥ 10 ∧ x < 1000000000 then do
    let d ← wr d off ds
    pure (d, ds.length)
  else do
    let d ← reverseCopy d off ds n
    pure (d, ds.length)

/-- `pf_write_leading_zeroes(out, written_by_utoa, fmt)`: the digits sit at `data + length` already -/
def leadingZeroes (p : PF) (written : Nat) (prec : Option Nat) : Option PF :=
  match prec with
  | some w =>
    let diff := if w ≤ written then 0 else w - written
    let cl := capLeft p
    do
      let d ← mv p.data (p.length + diff) p.length (if diff ≥ cl then 0 else min written (cl - diff))
      let d ← wr d p.length (List.replicate (limit p diff) 48)
      pure { data := d, length := p.length + written + diff }
  | none => some { p with length := p.length + written }

/-- an unsigned integer conversion body: digits at the current position, then precision zero-fill
(`pf_write_u`, and the tail of `pf_write_i / _x / _X / _p`) -/
def writeUInt (p : PF) (base : Nat) (upper : Bool) (prec : Option Nat) (x : Nat) : Option PF := do
  let (d, w) ← utoaAt p.data p.length (capLeft p) base upper x
  leadingZeroes { p with data := d } w prec

/-- `pf_write_o` with the `#` flag and a non-zero value: a '0' is pushed first and counted as one of
the digits for the zero-fill, then taken off the length again -/
def writeOctAlt (p : PF) (prec : Option Nat) (x : Nat) : Option PF := do
  let p ← push p 48
  let (d, w) ← utoaAt p.data p.length (capLeft p) 8 false x
  let p ← leadingZeroes { p with data := d } (1 + w) prec
  pure { p with length := p.length - 1 }

/-! ### digit-block writers of the float converter (src/conversions.c) -/

/-- the last `count` decimal digits of `x`, highest first -/
def lastDigits (count x : Nat) : Bytes :=
  (List.range count).reverse.map fun i => UInt8.ofNat (48 + x / 10 ^ i % 10)

/-- `pf_append_nine_digits`: direct when 9 bytes are left, else through `pf_concat` -/
def appendNine (p : PF) (x : Nat) : Option PF :=
  if capLeft p ≥ 9 then do
    let d ← wr p.data p.length (lastDigits 9 x)
    pure { data := d, length := p.length + 9 }
  else concat p (lastDigits 9 x)

/-- `pf_append_c_digits(out, count, digits)` -/
def appendC (p : PF) (count x : Nat) : Option PF :=
  if capLeft p ≥ count then do
    let d ← wr p.data p.length (lastDigits count x)
    pure { data := d, length := p.length + count }
  else concat p (lastDigits count x)

/-- text of `pf__append_d_digits(olength, digits)`: first digit, '.', the remaining digits
(a single digit gives "d.") -/
def dDigits (olength x : Nat) : Bytes :=
  match lastDigits olength x with
  | [] => [46]
  | h :: t => h :: 46 :: t

/-- `pf_append_d_digits(out, maximum, digits)`: direct when `maximum + 1` bytes are left -/
def appendD (p : PF) (maximum x : Nat) : Option PF :=
  if capLeft p ≥ maximum + 1 then do
    let d ← wr p.data p.length (dDigits maximum x)
    pure { data := d, length := p.length + maximum + 1 }
  else concat p (dDigits maximum x)

/-- `pf_append_utoa(out, digits)` for a block below 10^9... the writer it calls may also leave a
terminator after the digits when it takes its slow path -/
def appendUtoa (p : PF) (x : Nat) : Option PF :=
  if capLeft p ≥ 9 then do
    let (d, w) ← utoaAt p.data p.length (capLeft p) 10 false x
    pure { data := d, length := p.length + w }
  else concat p (digits 10 false x)

/-- one output step of the float converter -/
inductive Emit where
  | push (c : UInt8)
  | pad (c : UInt8) (n : Nat)
  | concat (s : Bytes)
  | utoa (x : Nat)
  | nine (x : Nat)
  | cdig (count x : Nat)
  | ddig (maximum x : Nat)
deriving Repr

def emit (p : PF) : Emit → Option PF
  | .push c => push p c
  | .pad c n => pad p c n
  | .concat s => concat p s
  | .utoa x => appendUtoa p x
  | .nine x => appendNine p x
  | .cdig c x => appendC p c x
  | .ddig m x => appendD p m x

/-- what the step appends to an unbounded output -/
def Emit.text : Emit → Bytes
  | .push c => [c]
  | .pad c n => List.replicate n c
  | .concat s => s
  | .utoa x => digits 10 false x
  | .nine x => lastDigits 9 x
  | .cdig c x => lastDigits c x
  | .ddig m x => dDigits m x

def emitAll (p : PF) : List Emit → Option PF
  | [] => some p
  | e :: es => (emit p e).bind fun p => emitAll p es

/-- the converters finish with `if (pf_capacity_left(out)) out.data[out.length] = '\0'` -/
def terminate (p : PF) : Option PF :=
  if capLeft p ≠ 0 then do
    let d ← wr p.data p.length [0]
    pure { p with data := d }
  else some p

/-- `pf_write_f`: the converter runs on the window `data + length` of `pf_capacity_left` bytes with a
string of its own, and its return value is added to the length -/
def writeFloat (p : PF) (plan : List Emit) : Option PF := do
  let window : PF := { data := p.data.drop (min p.length p.cap), length := 0 }
  let w ← emitAll window plan
  let w ← terminate w
  pure { data := p.data.take (min p.length p.cap) ++ w.data, length := p.length + w.length }

end Gpc.PF
