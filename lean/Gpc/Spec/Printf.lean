/-
Specification of formatted output (C11 7.21.6.1) for the conversions the library supports:
`c s d i o x X u f F e E g G p %` with flags, field width, precision and length modifiers.
Integers are exact; floating point values are taken from the IEEE-754 bit pattern and converted by
exact natural-number arithmetic (value = m * 2^e, round-half-even on the exact value).
-/
namespace Gpc.Printf

abbrev Bytes := List UInt8

structure Flags where
  dash : Bool := false
  plus : Bool := false
  space : Bool := false
  hash : Bool := false
  zero : Bool := false
deriving Repr, DecidableEq

/-- length modifiers (`B W D Q` are the library's fixed-width extensions) -/
inductive LenMod where
  | none | hh | h | l | ll | j | z | t | L | B | W | D | Q
deriving Repr, DecidableEq

structure Spec where
  flags : Flags := {}
  width : Nat := 0                 -- 0 = no field width
  prec : Option Nat := none
  len : LenMod := .none
  conv : Char
deriving Repr

def LenMod.bits : LenMod → Nat
  | .none => 32 | .hh => 8 | .h => 16 | .l => 64 | .ll => 64 | .j => 64 | .z => 64 | .t => 64
  | .L => 32 | .B => 8 | .W => 16 | .D => 32 | .Q => 64

/-- the integer conversions, for which a precision switches the `0` flag off -/
def isIntConv (c : Char) : Bool := c = 'd' || c = 'i' || c = 'o' || c = 'u' || c = 'x' || c = 'X'

def isFloatConv (c : Char) : Bool := c = 'f' || c = 'F' || c = 'e' || c = 'E' || c = 'g' || c = 'G'

def ascii (s : String) : Bytes := s.toList.map fun c => UInt8.ofNat c.toNat

/-! ### integers -/

def digitChar (upper : Bool) (d : Nat) : UInt8 :=
  if d < 10 then UInt8.ofNat (48 + d) else UInt8.ofNat ((if upper then 55 else 87) + d)

/-- positional notation: digits of `x` in `base`, most significant first ("0" for zero) -/
def natDigits (base : Nat) (upper : Bool) (x : Nat) : Bytes :=
  if h : x < base ∨ base < 2 then [digitChar upper x]
  else natDigits base upper (x / base) ++ [digitChar upper (x % base)]
termination_by x
decreasing_by
  have hb : 2 ≤ base := by omega
  have hx : base ≤ x := by omega
  exact Nat.div_lt_self (by omega) (by omega)

/-- the argument converted to the type the length modifier names: signed value -/
def signedArg (len : LenMod) (raw : Nat) : Int :=
  let b := len.bits
  let v : Nat := raw % 2 ^ b
  if v ≥ 2 ^ (b - 1) then (v : Int) - (2 ^ b : Nat) else v

def unsignedArg (len : LenMod) (raw : Nat) : Nat := raw % 2 ^ len.bits

/-- digits after applying the precision: at least `prec` digits; value 0 with precision 0 gives none -/
def precDigits (ds : Bytes) (isZero : Bool) (prec : Option Nat) : Bytes :=
  match prec with
  | none => ds
  | some p => if p = 0 ∧ isZero then [] else List.replicate (p - ds.length) 48 ++ ds

/-- field padding: `prefix` is the sign / `0x`, zero padding goes between it and the body -/
def padField (f : Flags) (width : Nat) (pre body : Bytes) (zeroOk : Bool) : Bytes :=
  let n := pre.length + body.length
  if width ≤ n then pre ++ body
  else if f.dash then pre ++ body ++ List.replicate (width - n) 32
  else if f.zero ∧ zeroOk then pre ++ List.replicate (width - n) 48 ++ body
  else List.replicate (width - n) 32 ++ pre ++ body

def signBytes (f : Flags) (neg : Bool) : Bytes :=
  if neg then [45] else if f.plus then [43] else if f.space then [32] else []

def fmtSigned (s : Spec) (raw : Nat) : Bytes :=
  let v := signedArg s.len raw
  let mag := v.natAbs
  let ds := precDigits (natDigits 10 false mag) (mag = 0) s.prec
  padField s.flags s.width (signBytes s.flags (v < 0)) ds s.prec.isNone

def fmtUnsigned (s : Spec) (raw : Nat) : Bytes :=
  let v := unsignedArg s.len raw
  let (base, upper) := match s.conv with
    | 'o' => (8, false) | 'x' => (16, false) | 'X' => (16, true) | _ => (10, false)
  let ds := precDigits (natDigits base upper v) (v = 0) s.prec
  let ds := if s.flags.hash ∧ s.conv = 'o' ∧ ds.head? ≠ some 48 then 48 :: ds else ds
  let pre : Bytes := if s.flags.hash ∧ v ≠ 0 ∧ (s.conv = 'x' ∨ s.conv = 'X') then [48, UInt8.ofNat s.conv.toNat] else []
  padField s.flags s.width pre ds s.prec.isNone

/-! ### floating point -/

/-- round-half-even of `num / den` -/
def roundDiv (num den : Nat) : Nat :=
  let q := num / den
  let r := num % den
  if 2 * r > den ∨ (2 * r = den ∧ q % 2 = 1) then q + 1 else q

/-- round-half-even of `m * 2^e * 10^p` -/
def scaled (m : Nat) (e p : Int) : Nat :=
  let num := m * (if e ≥ 0 then 2 ^ e.toNat else 1) * (if p ≥ 0 then 10 ^ p.toNat else 1)
  let den := (if e ≥ 0 then 1 else 2 ^ (-e).toNat) * (if p ≥ 0 then 1 else 10 ^ (-p).toNat)
  roundDiv num den

def decLen (n : Nat) : Nat := (Nat.toDigits 10 n).length

/-- `X` with `10^X ≤ m * 2^e < 10^(X+1)` for `m > 0` -/
def exp10 (m : Nat) (e : Int) : Int :=
  let num := m * (if e ≥ 0 then 2 ^ e.toNat else 1)
  let den := if e ≥ 0 then 1 else 2 ^ (-e).toNat
  if num ≥ den then (decLen (num / den) : Int) - 1
  else
    let c := (den + num - 1) / num          -- ceil(den / num) ≥ 2
    Int.neg (decLen (c - 1))

structure Dbl where
  neg : Bool
  special : Option Bool        -- some true = NaN, some false = infinity
  m : Nat
  e : Int
deriving Repr

def decode (bits : Nat) : Dbl :=
  let neg : Bool := bits / 2 ^ 63 % 2 = 1
  let ex : Nat := bits / 2 ^ 52 % 2048
  let man : Nat := bits % 2 ^ 52
  if ex = 2047 then { neg := neg, special := some (man ≠ 0), m := 0, e := 0 }
  else if ex = 0 then { neg := neg, special := none, m := man, e := -1074 }
  else { neg := neg, special := none, m := man + 2 ^ 52, e := (ex : Int) - 1075 }

def fixedText (m : Nat) (e : Int) (prec : Nat) (alt : Bool) : Bytes :=
  let n := scaled m e prec
  let ds := natDigits 10 false n
  if prec > 0 then
    let ds := List.replicate (prec + 1 - ds.length) 48 ++ ds
    ds.take (ds.length - prec) ++ [46] ++ ds.drop (ds.length - prec)
  else ds ++ (if alt then [46] else [])

/-- `prec + 1` significant digits and the decimal exponent, after rounding -/
def expParts (m : Nat) (e : Int) (prec : Nat) : Bytes × Int :=
  if m = 0 then (List.replicate (prec + 1) 48, 0)
  else
    let x := exp10 m e
    let n := scaled m e ((prec : Int) - x)
    if n ≥ 10 ^ (prec + 1) then (natDigits 10 false (scaled m e ((prec : Int) - (x + 1))), x + 1)
    else (natDigits 10 false n, x)

def expText (ds : Bytes) (x : Int) (alt upper : Bool) : Bytes :=
  let body := match ds with
    | [] => []
    | [d] => d :: (if alt then [46] else [])
    | d :: rest => d :: 46 :: rest
  let ex := natDigits 10 false x.natAbs
  body ++ [if upper then 69 else 101] ++ [if x < 0 then 45 else 43] ++ (if ex.length < 2 then 48 :: ex else ex)

def stripZeros (s : Bytes) : Bytes := (s.reverse.dropWhile (· = 48)).reverse

/-- `%g`: style `f` or `e` from the exponent after rounding to `P` significant digits; trailing zeros
removed unless `#` -/
def gText (m : Nat) (e : Int) (prec : Option Nat) (alt upper : Bool) : Bytes :=
  let P := match prec with | none => 6 | some 0 => 1 | some p => p
  let (ds, x) := expParts m e (P - 1)
  if -4 ≤ x ∧ x < P then
    let s := fixedText m e ((P : Int) - 1 - x).toNat alt
    if ¬ alt ∧ s.contains 46 then
      let t := stripZeros s
      if t.getLast? = some 46 then t.dropLast else t
    else s
  else
    let ds := if alt then ds else match ds with | [] => [] | d :: r => d :: stripZeros r
    expText ds x alt upper

/-- sign, body, and whether the value is an infinity / NaN -/
def floatParts (s : Spec) (bits : Nat) : Bytes × Bytes × Bool :=
  let d := decode bits
  let sg := signBytes s.flags d.neg
  let upper := s.conv = 'F' ∨ s.conv = 'E' ∨ s.conv = 'G'
  match d.special with
  | some nan => (sg, ascii (if nan then (if upper then "NAN" else "nan") else (if upper then "INF" else "inf")), true)
  | none =>
    let body :=
      if s.conv = 'f' ∨ s.conv = 'F' then fixedText d.m d.e (s.prec.getD 6) s.flags.hash
      else if s.conv = 'e' ∨ s.conv = 'E' then
        let (ds, x) := expParts d.m d.e (s.prec.getD 6)
        expText ds x s.flags.hash upper
      else gText d.m d.e s.prec s.flags.hash upper
    (sg, body, false)

def fmtFloat (s : Spec) (bits : Nat) : Bytes :=
  let (sg, body, special) := floatParts s bits
  padField s.flags s.width sg body (!special)

/-! ### everything -/

inductive Arg where
  | int (raw : Nat)          -- an integer-class argument as a 64-bit pattern
  | dbl (bits : Nat)
  | str (s : Bytes)          -- the bytes up to the terminator
  | gstr (s : Bytes)         -- a library string: all its bytes, of known length (`%S`)
deriving Repr

def cstrlen (s : Bytes) : Bytes := s.takeWhile (· ≠ 0)

/-- the bytes `%s` prints: up to the terminator, at most `precision` of them -/
def strArg (prec : Option Nat) (str : Bytes) : Bytes :=
  match prec with
  | none => cstrlen str
  | some p => (cstrlen str).take p

/-- the bytes of a wide character (`%lc`): the library's UTF-8 encoder `gp_utf8_decode` applied to the
argument taken as a 32-bit value (bits above the 21st are dropped by the four-byte form) -/
def wcBytes (raw : Nat) : Bytes :=
  let e := raw % 2 ^ 32
  if e > 0x7F then
    if e < 0x800 then [UInt8.ofNat (e / 64 % 32 + 0xC0), UInt8.ofNat (e % 64 + 0x80)]
    else if e < 0x10000 then
      [UInt8.ofNat (e / 4096 % 16 + 0xE0), UInt8.ofNat (e / 64 % 64 + 0x80), UInt8.ofNat (e % 64 + 0x80)]
    else
      [UInt8.ofNat (e / 262144 % 8 + 0xF0), UInt8.ofNat (e / 4096 % 64 + 0x80), UInt8.ofNat (e / 64 % 64 + 0x80),
       UInt8.ofNat (e % 64 + 0x80)]
  else [UInt8.ofNat e]

/-- what `%c` / `%lc` print before padding: the argument as one byte, or the wide character's UTF-8 form -/
def charBody (s : Spec) (raw : Nat) : Bytes :=
  if s.len = .l then wcBytes raw else [UInt8.ofNat (raw % 256)]

/-- `gp_utf8_codepoint_length`: the length a lead byte announces, 0 for a byte that is no lead byte -/
def leadLen (b : UInt8) : Nat :=
  let k := b.toNat / 8
  if k < 16 then 1 else if k < 24 then 0 else if k < 28 then 2 else if k < 30 then 3 else if k = 30 then 4 else 0

/-- the scan of `pf_write_S`: walk the code points of the first `limit` bytes; when a code point crosses the
limit it is dropped.  Result: (bytes kept, code points kept); `none` when a byte that is no lead byte is met
(the scan of the implementation does not advance there) -/
def ustrScan (str : Bytes) (limit : Nat) : (fuel i cnt last : Nat) → Option (Nat × Nat)
  | 0, _, _, _ => none
  | fuel + 1, i, cnt, last =>
    if i > limit then some (i - last, cnt - 1)
    else if i = limit then some (i, cnt)
    else
      let l := leadLen (str.getD i 0)
      if l = 0 then none else ustrScan str limit fuel (i + l) (cnt + 1) l

def ustrLimit (prec : Option Nat) (str : Bytes) : Nat :=
  match prec with | none => str.length | some p => min str.length p

/-- what `%S` prints of a library string: at most `precision` bytes, cut back to a code point boundary -/
def ustrArg (prec : Option Nat) (str : Bytes) : Option (Bytes × Nat) :=
  (ustrScan str (ustrLimit prec str) (ustrLimit prec str + 2) 0 0 0).map fun r => (str.take r.1, r.2)

/-- `%S`: the field width counts code points, padding is spaces -/
def fmtUStr (s : Spec) (str : Bytes) : Option Bytes :=
  (ustrArg s.prec str).map fun r =>
    if s.flags.dash then r.1 ++ List.replicate (s.width - r.2) 32 else List.replicate (s.width - r.2) 32 ++ r.1

/-- one conversion; `none` when the argument kind does not fit -/
def formatOne (s : Spec) : Arg → Option Bytes
  | .int raw =>
    if s.conv = 'd' ∨ s.conv = 'i' then some (fmtSigned s raw)
    else if s.conv = 'o' ∨ s.conv = 'u' ∨ s.conv = 'x' ∨ s.conv = 'X' then some (fmtUnsigned s raw)
    else if s.conv = 'c' then some (padField { s.flags with zero := false } s.width [] (charBody s raw) false)
    else if s.conv = 'p' then
      let v := raw % 2 ^ 64
      let body := if v = 0 then ascii "(nil)" else [48, 120] ++ natDigits 16 false v
      some (padField { s.flags with zero := false } s.width [] body false)
    else none
  | .dbl bits => if isFloatConv s.conv then some (fmtFloat s bits) else none
  | .str str =>
    if s.conv = 's' then
      some (padField { s.flags with zero := false } s.width [] (strArg s.prec str) false)
    else none
  | .gstr str => if s.conv = 'S' then fmtUStr s str else none

end Gpc.Printf
