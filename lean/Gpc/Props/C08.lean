import Gpc.Model.Search
import Gpc.Proofs.Search
/-!
# C08 — search and comparison primitives return the definitional answer (property theorems)

`OccursAt h n i` : the needle `n` is a prefix of the haystack's suffix at offset `i`.
Every model function returns `Option …` whose outer `none` means "a byte outside the given buffers
was read"; `reads_in_bounds_*` state that this never happens under the API's preconditions.
-/
namespace Gpc.Search

/-! ## find first -/

/-- smallest index `≥ start` at which the needle occurs; not-found exactly when there is none -/
theorem find_first_spec (h n : Bytes) (start : Nat) (hs : start ≤ h.length) :
    ∃ r, findFirst h n start = some r ∧
      (∀ i, r = some i ↔ (start ≤ i ∧ i ≤ h.length ∧ OccursAt h n i ∧
                          ∀ j, start ≤ j → j < i → ¬ OccursAt h n j)) ∧
      (r = none ↔ ∀ i, start ≤ i → i ≤ h.length → ¬ OccursAt h n i) := by
  refine ⟨(memmem (h.drop start) n).map (· + start), by simp [findFirst, hs], ?_, ?_⟩
  · intro i
    constructor
    · intro hh
      cases hm : memmem (h.drop start) n with
      | none => simp [hm] at hh
      | some k =>
        simp [hm] at hh; subst hh
        obtain ⟨h1, h2, h3⟩ := (memmem_some _ _ _).1 hm
        simp only [List.length_drop] at h2
        refine ⟨by omega, by omega, ?_, ?_⟩
        · rw [occursAt_drop] at h1; rwa [Nat.add_comm]
        · intro j hj1 hj2 ho
          have := h3 (j - start) (by omega)
          rw [occursAt_drop] at this
          exact this (by rwa [show start + (j - start) = j by omega])
    · rintro ⟨h1, h2, h3, h4⟩
      have : memmem (h.drop start) n = some (i - start) := by
        rw [memmem_some]
        refine ⟨?_, by simp only [List.length_drop]; omega, ?_⟩
        · rw [occursAt_drop]; rwa [show start + (i - start) = i by omega]
        · intro j hj; rw [occursAt_drop]; exact h4 (start + j) (by omega) (by omega)
      simp [this]; omega
  · simp only [Option.map_eq_none_iff, memmem_none, List.length_drop]
    constructor
    · intro hh i h1 h2 ho
      have := hh (i - start) (by omega)
      rw [occursAt_drop, show start + (i - start) = i by omega] at this
      exact this ho
    · intro hh i hi; rw [occursAt_drop]; exact hh (start + i) (by omega) (by omega)

/-! ## find last -/

/-- largest index at which the (non-empty) needle occurs; not-found exactly when there is none -/
theorem find_last_spec (h n : Bytes) (hn : n ≠ []) :
    ∃ r, findLast h n = some r ∧
      (∀ i, r = some i ↔ (OccursAt h n i ∧ ∀ j, i < j → ¬ OccursAt h n j)) ∧
      (r = none ↔ ∀ i, ¬ OccursAt h n i) := by
  cases n with
  | nil => exact absurd rfl hn
  | cons n0 n =>
    unfold findLast
    simp only
    split
    · rename_i hc
      have hno : ∀ i, ¬ OccursAt h (n0 :: n) i := by
        intro i ho
        have := occursAt_le_length h (n0 :: n) i (by simp) ho
        simp only [List.length_cons] at this hc
        omega
      refine ⟨none, rfl, ?_, by simpa using hno⟩
      intro i; constructor
      · intro hh; simp at hh
      · rintro ⟨ho, _⟩; exact absurd ho (hno i)
    · rename_i hc
      simp only [List.length_cons] at hc
      have hlen : n.length + 1 ≤ h.length := by omega
      obtain ⟨r, hr, h1, h2⟩ := findLastLoop_spec h n n0 (h.length + 1)
        (h.length - ((n0 :: n).length - 1)) (by simp only [List.length_cons]; omega)
        (by simp only [List.length_cons]; omega)
      have hbeyond : ∀ j, h.length - ((n0 :: n).length - 1) ≤ j → ¬ OccursAt h (n0 :: n) j := by
        intro j hj ho
        have := occursAt_le_length h (n0 :: n) j (by simp) ho
        simp only [List.length_cons] at this hj
        omega
      refine ⟨r, hr, ?_, ?_⟩
      · intro i; constructor
        · intro hi
          obtain ⟨a, b, c⟩ := h1 i hi
          refine ⟨b, ?_⟩
          intro j hj
          by_cases hjd : j < h.length - ((n0 :: n).length - 1)
          · exact c j hj hjd
          · exact hbeyond j (by omega)
        · rintro ⟨ho, hmax⟩
          cases r with
          | none =>
            have hi : i < h.length - ((n0 :: n).length - 1) := by
              apply Classical.byContradiction; intro hh; exact hbeyond i (by omega) ho
            exact absurd ho (h2 rfl i hi)
          | some d =>
            obtain ⟨a, b, c⟩ := h1 d rfl
            have hi : i < h.length - ((n0 :: n).length - 1) := by
              apply Classical.byContradiction; intro hh; exact hbeyond i (by omega) ho
            by_cases hid : i = d
            · rw [hid]
            · by_cases hlt : i < d
              · exact absurd b (hmax d hlt)
              · exact absurd ho (c i (by omega) hi)
      · constructor
        · intro hn' i
          by_cases hi : i < h.length - ((n0 :: n).length - 1)
          · exact h2 hn' i hi
          · exact hbeyond i (by omega)
        · intro hall
          cases r with
          | none => rfl
          | some d => exact absurd (h1 d rfl).2.1 (hall d)

/-! ## count -/

/-- number of suffixes of the haystack that start with the needle -/
def specCount : Bytes → Bytes → Nat
  | [], _ => 0
  | a :: h, n => (if n <+: a :: h then 1 else 0) + specCount h n

theorem specCount_eq_countP (h n : Bytes) :
    specCount h n = (List.range h.length).countP (fun i => decide (OccursAt h n i)) := by
  induction h with
  | nil => simp [specCount]
  | cons a h ih =>
    rw [specCount, List.length_cons, List.range_succ_eq_map, List.countP_cons, List.countP_map, ih]
    have : ((fun i => decide (OccursAt (a :: h) n i)) ∘ Nat.succ) = (fun i => decide (OccursAt h n i)) := by
      funext i; simp [occursAt_cons_succ]
    rw [this]
    simp only [occursAt_zero]
    split <;> simp_all <;> omega

theorem specCount_memmem (l n : Bytes) (hn : n ≠ []) :
    specCount l n = match memmem l n with
      | none => 0
      | some k => 1 + specCount (l.drop (k + 1)) n := by
  induction l with
  | nil =>
    have : n.isEmpty = false := by cases n <;> simp_all
    simp [specCount, memmem, this]
  | cons a t ih =>
    simp only [specCount, memmem]
    by_cases hp : n <+: a :: t
    · have hb : n.isPrefixOf (a :: t) = true := List.isPrefixOf_iff_prefix.2 hp
      simp [hp, hb]
    · have hb : ¬ n.isPrefixOf (a :: t) = true := fun e => hp (List.isPrefixOf_iff_prefix.1 e)
      simp only [hp, hb, if_false, Nat.zero_add, ih]
      cases memmem t n <;> simp

theorem countLoop_spec (h n : Bytes) (hn : n ≠ []) (fuel i c : Nat) (hi : i ≤ h.length)
    (hf : h.length - i < fuel) :
    countLoop h n fuel i c = some (c + specCount (h.drop i) n) := by
  induction fuel generalizing i c with
  | zero => omega
  | succ f ih =>
    simp only [countLoop, findFirst, hi, if_true]
    rw [specCount_memmem _ _ hn]
    cases hm : memmem (h.drop i) n with
    | none => simp
    | some k =>
      simp only [Option.map_some]
      obtain ⟨h1, h2, _⟩ := (memmem_some _ _ _).1 hm
      have hk := occursAt_le_length _ _ _ hn h1
      simp only [List.length_drop] at hk h2
      have hnl : 0 < n.length := List.length_pos_iff.mpr hn
      rw [ih (k + i + 1) (c + 1) (by omega) (by omega), List.drop_drop]
      congr 1
      have : i + (k + 1) = k + i + 1 := by omega
      rw [this]; omega

/-- `count` = the number of positions at which the (non-empty) needle occurs, overlaps included -/
theorem count_spec (h n : Bytes) (hn : n ≠ []) :
    count h n = some ((List.range h.length).countP (fun i => decide (OccursAt h n i))) := by
  unfold count
  rw [countLoop_spec h n hn _ 0 0 (Nat.zero_le _) (by omega), ← specCount_eq_countP]
  simp

/-! ## find first of / not of (byte sets given as C strings: no NUL inside the set) -/

theorem firstOfLoop_spec (h set : Bytes) (want : Bool) (hset : ¬ (0 : UInt8) ∈ set) (fuel i : Nat)
    (hf : h.length - i ≤ fuel) :
    ∃ r, firstOfLoop h set want fuel i = some r ∧
      (∀ k, r = some k ↔ (i ≤ k ∧ k < h.length ∧ (∃ c, h[k]? = some c ∧ (decide (c ∈ set)) = want) ∧
          ∀ j, i ≤ j → j < k → ∃ c, h[j]? = some c ∧ (decide (c ∈ set)) ≠ want)) ∧
      (r = none ↔ ∀ j, i ≤ j → j < h.length → ∃ c, h[j]? = some c ∧ (decide (c ∈ set)) ≠ want) := by
  induction fuel generalizing i with
  | zero =>
    refine ⟨none, by simp [firstOfLoop], ?_, ?_⟩
    · intro k; constructor
      · intro hh; simp at hh
      · rintro ⟨a, b, _⟩; omega
    · constructor
      · intro _ j h1 h2; omega
      · intro _; rfl
  | succ f ih =>
    simp only [firstOfLoop]
    by_cases hi : i < h.length
    · simp only [hi, if_true, rd, List.getElem?_eq_getElem hi]
      have hmem : (h[i] != 0 && strchrHit set h[i]) = decide (h[i] ∈ set) := by
        unfold strchrHit
        by_cases hz : h[i] = 0
        · have h0 : ¬ h[i] ∈ set := by rw [hz]; exact hset
          have h1 : (h[i] != 0) = false := by rw [hz]; rfl
          rw [h1]; simp [h0]
        · have h1 : (h[i] != 0) = true := by simp [hz]
          have h2 : (h[i] == 0) = false := by simp [hz]
          rw [h1, h2]; simp
      rw [hmem]
      by_cases hw : decide (h[i] ∈ set) = want
      · refine ⟨some i, by simp [hw], ?_, ?_⟩
        rotate_left
        · constructor
          · intro hh; simp at hh
          · intro hh
            obtain ⟨c', hc1, hc2⟩ := hh i (Nat.le_refl _) hi
            rw [List.getElem?_eq_getElem hi] at hc1
            injection hc1 with hc1; subst hc1
            exact absurd hw hc2
        intro k; constructor
        · intro hk; injection hk with hk; subst hk
          exact ⟨Nat.le_refl _, hi, ⟨h[i], by simp [List.getElem?_eq_getElem hi], hw⟩, fun j a b => by omega⟩
        · rintro ⟨a, b, c, d⟩
          by_cases hki : k = i
          · rw [hki]
          · obtain ⟨c', hc1, hc2⟩ := d i (Nat.le_refl _) (by omega)
            rw [List.getElem?_eq_getElem hi] at hc1
            injection hc1 with hc1; subst hc1
            exact absurd hw hc2
      · obtain ⟨r, hr, h1, h2⟩ := ih (i + 1) (by omega)
        refine ⟨r, by simp [hw, hr], ?_, ?_⟩
        · intro k; rw [h1 k]; constructor
          · rintro ⟨a, b, c, d⟩
            refine ⟨by omega, b, c, ?_⟩
            intro j hj1 hj2
            by_cases hji : j = i
            · subst hji; exact ⟨h[j], by simp [List.getElem?_eq_getElem hi], hw⟩
            · exact d j (by omega) hj2
          · rintro ⟨a, b, c, d⟩
            have hki : k ≠ i := by
              intro e; subst e
              obtain ⟨c', hc1, hc2⟩ := c
              rw [List.getElem?_eq_getElem hi] at hc1
              injection hc1 with hc1; subst hc1
              exact hw hc2
            exact ⟨by omega, b, c, fun j hj1 hj2 => d j (by omega) hj2⟩
        · rw [h2]; constructor
          · intro hh j hj1 hj2
            by_cases hji : j = i
            · subst hji; exact ⟨h[j], by simp [List.getElem?_eq_getElem hi], hw⟩
            · exact hh j (by omega) hj2
          · intro hh j hj1 hj2; exact hh j (by omega) hj2
    · refine ⟨none, by simp [hi], ?_, ?_⟩
      · intro k; constructor
        · intro hh; simp at hh
        · rintro ⟨a, b, _⟩; omega
      · constructor
        · intro _ j h1 h2; omega
        · intro _; rfl

/-- first position `≥ start` whose byte is a member of the set (not-found iff none) -/
theorem first_of_spec (h set : Bytes) (start : Nat) (hset : ¬ (0 : UInt8) ∈ set) :
    ∃ r, findFirstOf h set start = some r ∧
      (∀ k, r = some k ↔ (start ≤ k ∧ k < h.length ∧ (∃ c, h[k]? = some c ∧ c ∈ set) ∧
          ∀ j, start ≤ j → j < k → ∃ c, h[j]? = some c ∧ ¬ c ∈ set)) ∧
      (r = none ↔ ∀ j, start ≤ j → j < h.length → ∃ c, h[j]? = some c ∧ ¬ c ∈ set) := by
  have := firstOfLoop_spec h set true hset (h.length - start) start (Nat.le_refl _)
  simpa [findFirstOf] using this

/-- first position `≥ start` whose byte is NOT a member of the set (not-found iff none) -/
theorem first_not_of_spec (h set : Bytes) (start : Nat) (hset : ¬ (0 : UInt8) ∈ set) :
    ∃ r, findFirstNotOf h set start = some r ∧
      (∀ k, r = some k ↔ (start ≤ k ∧ k < h.length ∧ (∃ c, h[k]? = some c ∧ ¬ c ∈ set) ∧
          ∀ j, start ≤ j → j < k → ∃ c, h[j]? = some c ∧ c ∈ set)) ∧
      (r = none ↔ ∀ j, start ≤ j → j < h.length → ∃ c, h[j]? = some c ∧ c ∈ set) := by
  have := firstOfLoop_spec h set false hset (h.length - start) start (Nat.le_refl _)
  simpa [findFirstNotOf] using this

/-! ## equality -/

theorem equal_spec (a b : Bytes) : equal a b = true ↔ a = b := by
  unfold equal
  constructor
  · intro h; simp at h; exact h.2
  · intro h; subst h; simp

theorem equalCaseLoop_spec (a b : Bytes) (hl : a.length = b.length) :
    equalCaseLoop a b = true ↔ a.map lowerAscii = b.map lowerAscii := by
  induction a generalizing b with
  | nil => cases b <;> simp_all [equalCaseLoop]
  | cons x a ih =>
    cases b with
    | nil => simp at hl
    | cons y b =>
      simp only [List.length_cons, Nat.add_right_cancel_iff] at hl
      simp only [equalCaseLoop, List.map_cons, List.cons.injEq]
      by_cases hxy : lowerAscii x = lowerAscii y
      · simp [hxy, ih b hl]
      · simp [hxy]

/-- ASCII case-insensitive equality = equality after mapping `A`–`Z` to `a`–`z` -/
theorem equal_case_spec (a b : Bytes) : equalCase a b = true ↔ a.map lowerAscii = b.map lowerAscii := by
  unfold equalCase
  by_cases hl : a.length = b.length
  · simp [hl, equalCaseLoop_spec a b hl]
  · simp [hl]
    intro h
    have := congrArg List.length h
    simp at this; exact hl this

/-! ## nothing outside the buffers is read -/

theorem reads_in_bounds_find_first (h n : Bytes) (start : Nat) (hs : start ≤ h.length) :
    findFirst h n start ≠ none := by simp [findFirst, hs]

theorem reads_in_bounds_find_last (h n : Bytes) (hn : n ≠ []) : findLast h n ≠ none := by
  obtain ⟨r, hr, _⟩ := find_last_spec h n hn; simp [hr]

theorem reads_in_bounds_count (h n : Bytes) (hn : n ≠ []) : count h n ≠ none := by
  simp [count_spec h n hn]

theorem reads_in_bounds_first_of (h set : Bytes) (start : Nat) (hset : ¬ (0 : UInt8) ∈ set) :
    findFirstOf h set start ≠ none ∧ findFirstNotOf h set start ≠ none := by
  obtain ⟨r, hr, _⟩ := first_of_spec h set start hset
  obtain ⟨r', hr', _⟩ := first_not_of_spec h set start hset
  simp [hr, hr']

/-! ## non-vacuity: the regression witness of the repaired candidate loop, and overlaps -/
example : findLast [97,97,97,98] [97,97] = some (some 1) := by decide
example : findLast [97,98,97,98,97] [97,98,97] = some (some 2) := by decide
example : count [97,97,97,97] [97,97] = some 3 := by decide
example : findFirstOf [0,1,2] [2] 0 = some (some 2) := by decide

end Gpc.Search
