import Gpc.Model.Proto
import Gpc.Model.FileIO
namespace Gpc.Driver
open Gpc.Proto Gpc.FileIO

def showSegs (segs : List (List UInt8)) : String :=
  if segs.isEmpty then "none" else ",".intercalate (segs.map toHex)

/-- whitespace default of `gp_file_read_strip`: GP_WHITESPACE -/
def whitespaceSet : List UInt8 :=
  [32, 9, 10, 11, 12, 13, 194, 160, 225, 154, 128, 226, 128, 128, 226, 128, 129, 226, 128, 130, 226, 128, 131, 226, 128, 132, 226, 128, 133, 226, 128, 134, 226, 128, 135, 226, 128, 136, 226, 128, 137, 226, 128, 138, 226, 128, 168, 226, 128, 169, 226, 128, 175, 226, 129, 159, 227, 128, 128, 194, 133]

def fioStep (toks : List String) : String :=
  match toks with
  | ["lines", _cap, f] => match parseHex f with
    | some file => showSegs (readAll readLine (file.length + 1) file)
    | none => "bad-op"
  | ["until", _cap, d, f] => match parseHex d, parseHex f with
    | some delim, some file => if delim.isEmpty then "bad-op" else showSegs (readAll (readUntil delim) (file.length + 1) file)
    | _, _ => "bad-op"
  | ["strip", _cap, set, f] =>
    match (if set == "NULL" then some whitespaceSet else parseHex set), parseHex f with
    | some set, some file => showSegs (readAll (readStrip set) (file.length + 1) file)
    | _, _ => "bad-op"
  | ["rw", a, b] => match parseHex a, parseHex b with
    | some a, some b => s!"w=0 r=0 {toHex a} a=0 r=0 {toHex (a ++ b)}"
    | _, _ => "bad-op"
  | ["fault", k] =>
    -- every injected fault (incl. `shrunk-<from>-<to>`: fewer bytes than the sampled size) must be reported as failure
    if ["full-short", "full-long", "missing", "dir", "wdir"].contains k || k.startsWith "shrunk-" then "rc=-1" else "bad-op"
  | _ => "bad-op"

end Gpc.Driver
