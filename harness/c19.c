/* C19 driver: each case is a test program (a script of suite/test/expect/assert/end_testing calls)
 * executed in a CHILD PROCESS; the parent captures stdout+stderr (one pipe, unbuffered, so the
 * order of verdict lines is the order they were written) and the exit status. */
#include <gpc/assert.h>
#include <gpc/memory.h>
#include <pthread.h>
#include <unistd.h>
#include <sys/wait.h>
#include "proto.h"

static char names[2048][8];

static void do_op(const char* op)
{
    if (op[0] == 'S') gp_suite(op[1] == '-' ? NULL : names[atoi(op + 1) & 2047]);
    else if (op[0] == 'T') gp_test(op[1] == '-' ? NULL : names[atoi(op + 1) & 2047]);
    else if (op[0] == 'E' && op[1] == '1') gp_expect(1 + 1 == 2);
    else if (op[0] == 'E' && op[2] == 'f') { int my_var = -39; gp_expect(1 + 1 == 3, "a note", "%x", 127, my_var, "[%i, %i]", 1, 2); }
    else if (op[0] == 'E' && op[2] == 'g') { gp_expect(1 + 1 == 3, "%%%i %i", 1, 2, "100%% of %s", "x"); }   /* literal percent signs in format strings */
    else if (op[0] == 'E') gp_expect(0 != 0);
    else if (op[0] == 'A' && op[1] == '1') gp_assert(2 > 1);
    else if (op[0] == 'A') gp_assert(2 < 1, "%s", "boom");
    else if (op[0] == 'X') gp_end_testing();
}

struct chunk { char** ops; int n; };
static void* thread_main(void* p) { struct chunk* c = p; for (int i = 0; i < c->n; i++) do_op(c->ops[i]); return NULL; }

static void child(char* script)
{
    setvbuf(stdout, NULL, _IONBF, 0); setvbuf(stderr, NULL, _IONBF, 0);
    alarm(2);                         /* a test program that does not terminate is killed: status 128+SIGALRM */
    static char* ops[8192]; int n = 0;
    if (strcmp(script, "-")) for (char* t = strtok(script, ","); t && n < 8192; t = strtok(NULL, ",")) ops[n++] = t;
    for (int i = 0; i < n;) {
        if (ops[i][0] == '@') {      /* maximal run of second-thread ops: one thread, joined */
            static char* run[8192]; int k = 0;
            while (i < n && ops[i][0] == '@') run[k++] = ops[i++] + 1;
            struct chunk c = { run, k }; pthread_t th; pthread_create(&th, NULL, thread_main, &c); pthread_join(th, NULL);
        } else do_op(ops[i++]);
    }
    exit(0);                          /* return from main */
}

static void strip_ansi(char* s) { char* w = s; for (char* r = s; *r;) { if (*r == 0x1b) { while (*r && *r != 'm') r++; if (*r) r++; } else *w++ = *r++; } *w = 0; }

int main(void)
{
    setvbuf(stdout, NULL, _IOFBF, 1 << 16);
    for (int i = 0; i < 2048; i++) snprintf(names[i], sizeof names[i], "n%d", i);
    while (vp_next()) {
        if (vp_ntok != 2 || strcmp(vp_tok[0], "tf")) { puts("bad-op"); fflush(stdout); continue; }
        int fd[2]; if (pipe(fd)) { puts("pipe-failed"); continue; }
        fflush(stdout);
        pid_t pid = fork();
        if (pid == 0) { close(fd[0]); dup2(fd[1], 1); dup2(fd[1], 2); close(fd[1]); child(vp_tok[1]); }
        close(fd[1]);
        size_t cap = 1 << 16, len = 0; char* buf = malloc(cap);
        for (;;) { if (len + 4096 > cap) buf = realloc(buf, cap *= 2); ssize_t r = read(fd[0], buf + len, 4096); if (r <= 0) break; len += (size_t)r; }
        buf[len] = 0; close(fd[0]);
        int st = 0; waitpid(pid, &st, 0);
        int status = WIFEXITED(st) ? WEXITSTATUS(st) : 128 + WTERMSIG(st);
        strip_ansi(buf);
        printf("status=%d", status);
        int any = 0; unsigned a = 0, b = 0;
        for (char* line = strtok(buf, "\n"); line; line = strtok(NULL, "\n")) {
            char* p = line; while (*p == '\t' || *p == ' ') p++;
            unsigned x, y; char nm[16];
            if (sscanf(p, "[PASSED] test n%15s", nm) == 1) { printf(" t%s:P", nm); any = 1; }
            else if (sscanf(p, "[FAILED] test n%15s", nm) == 1) { printf(" t%s:F", nm); any = 1; }
            else if (sscanf(p, "[PASSED] suite n%15s", nm) == 1) { printf(" s%s:P", nm); any = 1; }
            else if (sscanf(p, "[FAILED] suite n%15s", nm) == 1) { printf(" s%s:F", nm); any = 1; }
            else if (sscanf(p, "Starting suite n%15s", nm) == 1) { printf(" S%s", nm); any = 1; }
            else if (!strncmp(p, "Condition ", 10)) { printf(" f"); any = 1; }
            else if (sscanf(p, "A total of %u tests ran in %u suites", &x, &y) == 2) { a = x; b = y; }
            else if (sscanf(p, "%u tests failed and %u suites failed!", &x, &y) == 2) { printf(" sum:%u,%u,%u,%u", a, b, x, y); any = 1; }
            else if (!strncmp(p, "Passed all tests!", 17)) { printf(" sum:%u,%u,0,0", a, b); any = 1; }
        }
        if (!any) printf(" -");
        puts(""); free(buf); fflush(stdout);
    }
    return 0;
}
