/* C14 free-running stress: <threads> <rounds> <seed> <testers 0|1> <mode bits>.  Built with ThreadSanitizer (library in its pthread configuration).
 * Every thread, released together by a barrier, uses
 *   - its own strings / arrays / hash map / scope / scratch arena,
 *   - the shared (mutex protected) arena: every block is filled with the thread's tag and entered in a ledger,
 *   - the locale cache with a handful of codes (first use races on purpose),
 *   - gp_heap,
 *   - the unit test framework's counters (gp_test / gp_expect in the thread),
 * then exits with a scope left open and scratch memory in use (released by the key destructors).
 * Output: "ok" lines and, on a violated invariant, "BAD <what>".  ThreadSanitizer reports go to stderr. */
#include <gpc/memory.h>
#include <gpc/string.h>
#include <gpc/array.h>
#include <gpc/hashmap.h>
#include <gpc/unicode.h>
#include <gpc/assert.h>
#include <gpc/utils.h>
#include <pthread.h>
#include <stdio.h>
#include <stdlib.h>
#include <string.h>
#include <stdint.h>

#define MAXT 16
#define MAXB 4096
static GPArena* shared;
static pthread_barrier_t bar;
static int rounds, mode = 7;   /* 1 shared arena, 2 locale cache, 4 own objects + heap + scratch */
static unsigned seed0;
static const char* codes[] = { "en", "tr", "lt", "fi", "de", "az", "xx_YY", "" };
#define NCODES 8

struct blk { unsigned char* p; size_t n; };
struct tstate { int id; struct blk blocks[MAXB]; int nb; GPLocale loc[NCODES]; int bad; char what[128]; };
static struct tstate ts[MAXT];

static unsigned rnd(unsigned* s) { *s = *s * 1103515245u + 12345u; return *s >> 16; }

static void* worker(void* arg)
{
    struct tstate* t = arg;
    unsigned s = seed0 * 7919u + (unsigned)t->id * 104729u + 1;
    pthread_barrier_wait(&bar);
    GPAllocator* scope = gp_begin(0);
    GPString str = gp_str_new(scope, 8, "");
    GPHashMap* map = gp_hash_map_new(scope, &(GPMapInitializer){ .element_size = sizeof(int) });
    for (int r = 0; r < rounds; r++) {
        /* shared arena */
        if (mode & 1) {
        size_t n = rnd(&s) % 8 == 0 ? 0 : 1 + rnd(&s) % 200;         /* zero-sized requests too (the rewind-point idiom) */
        unsigned char* p = gp_mem_alloc((GPAllocator*)shared, n);
        memset(p, 0x40 + t->id, n);
        if (n && t->nb < MAXB) { t->blocks[t->nb].p = p; t->blocks[t->nb].n = n; t->nb++; }   /* an empty block owns no byte */
        }
        /* locale cache */
        int c = rnd(&s) % NCODES;
        if (mode & 2) {
        GPLocale l = gp_locale(codes[c]);
        if (t->loc[c] == (GPLocale)0) t->loc[c] = l;
        else if (t->loc[c] != l) { t->bad = 1; snprintf(t->what, sizeof t->what, "gp_locale(\"%s\") returned two different objects in one thread", codes[c]); }
        }
        if (!(mode & 4)) continue;
        /* own objects */
        gp_str_append(&str, "ab", 2);
        int v = r; gp_hash_map_put(map, &r, sizeof r, &v);
        void* h = gp_mem_alloc(gp_heap, 1 + rnd(&s) % 64); memset(h, 1, 1); gp_mem_dealloc(gp_heap, h);
        void* sc = gp_mem_alloc((GPAllocator*)gp_scratch_arena(), 1 + rnd(&s) % 300); memset(sc, 2, 1);
        /* case mapping uses the scratch arena and the locale cache */
        if ((r & 7) == 0) { GPString u = gp_str_new(scope, 8, "istanbul"); gp_str_to_upper_full(&u, codes[c]); }
    }
    if (!(mode & 4)) return NULL;
    if (gp_str_length(str) != 2 * (size_t)rounds) { t->bad = 1; snprintf(t->what, sizeof t->what, "own string has length %zu", gp_str_length(str)); }
    for (int r = 0; r < rounds; r++) { int* g = gp_hash_map_get(map, &r, sizeof r); if (!g || *g != r) { t->bad = 1; snprintf(t->what, sizeof t->what, "own map lost key %d", r); break; } }
    /* the thread ends with a scope open and scratch memory in use */
    for (int i = 0; i < (t->id % 3 == 0 ? 70 : 1); i++) (void)gp_begin(0);     /* some threads leave more scopes than one registry node holds */
    return NULL;
}

static int with_tests_mode;
static void* tester(void* arg)
{
    struct tstate* t = arg;
    pthread_barrier_wait(&bar);
    char name[16]; snprintf(name, sizeof name, "t%d", t->id);
    for (int r = 0; r < rounds; r++) {
        gp_test(name);
        if (with_tests_mode == 2 && r % 3 == 0) {
            /* a failing expectation with a formatted argument: the text this thread asked for must reach the report intact */
            char marker[256]; int n = snprintf(marker, sizeof marker, "<<t%d:r%d:", t->id, r);
            int m = 10 + (t->id * 7 + r) % 150; memset(marker + n, 'm', m); strcpy(marker + n + m, ">>");
            gp_expect(r < 0, "%s", marker);
        } else gp_expect(1);
        gp_test(NULL);
    }
    gp_suite(NULL);
    return NULL;
}

int main(int argc, char** argv)
{
    int nt = argc > 1 ? atoi(argv[1]) : 4; rounds = argc > 2 ? atoi(argv[2]) : 100; seed0 = argc > 3 ? (unsigned)atoi(argv[3]) : 1;
    int with_tests = argc > 4 ? atoi(argv[4]) : 0;      /* 1: passing tests in the odd threads, 2: every third test fails */
    with_tests_mode = with_tests;
    if (argc > 5) mode = atoi(argv[5]);
    if (nt > MAXT) nt = MAXT;
    shared = gp_arena_new_shared(1024);
    pthread_barrier_init(&bar, NULL, nt);
    pthread_t th[MAXT];
    for (int i = 0; i < nt; i++) { ts[i].id = i; pthread_create(&th[i], NULL, with_tests && (i & 1) ? tester : worker, &ts[i]); }
    for (int i = 0; i < nt; i++) pthread_join(th[i], NULL);
    int bad = 0;
    for (int i = 0; i < nt; i++) if (ts[i].bad) { printf("BAD thread %d: %s\n", i, ts[i].what); bad = 1; }
    /* ledger: blocks intact and pairwise disjoint across all threads */
    static struct blk all[MAXT * MAXB]; static int owner[MAXT * MAXB]; int na = 0;
    for (int i = 0; i < nt; i++) for (int j = 0; j < ts[i].nb; j++) { all[na] = ts[i].blocks[j]; owner[na] = i; na++; }
    for (int a = 0; a < na && !bad; a++) {
        for (size_t k = 0; k < all[a].n; k++) if (all[a].p[k] != 0x40 + owner[a]) { printf("BAD shared arena block of thread %d overwritten\n", owner[a]); bad = 1; break; }
    }
    /* sort by address, check neighbours */
    for (int a = 1; a < na; a++) { struct blk b = all[a]; int o = owner[a]; int j = a - 1; while (j >= 0 && all[j].p > b.p) { all[j + 1] = all[j]; owner[j + 1] = owner[j]; j--; } all[j + 1] = b; owner[j + 1] = o; }
    for (int a = 1; a < na && !bad; a++) if (all[a - 1].p + all[a - 1].n > all[a].p) { printf("BAD shared arena blocks of threads %d and %d overlap\n", owner[a - 1], owner[a]); bad = 1; }
    /* one object per locale code across threads */
    for (int c = 0; c < NCODES; c++) { GPLocale first = (GPLocale)0; int have = 0;
        for (int i = 0; i < nt; i++) { if (with_tests && (i & 1)) continue; if (!have) { first = ts[i].loc[c]; have = 1; }
            else if (have && ts[i].loc[c] != (GPLocale)0 && first != (GPLocale)0 && ts[i].loc[c] != first) { printf("BAD gp_locale(\"%s\") gave different objects to different threads\n", codes[c]); bad = 1; } } }
    printf("%s threads=%d rounds=%d blocks=%d\n", bad ? "FAILED" : "ok", nt, rounds, na);
    gp_arena_delete(shared);
    return bad;
}
