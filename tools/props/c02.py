"""C02 — scopes end exactly what was begun after them; defers run once, LIFO; any depth."""
import vlib


def oracle(case, out):
    """Python stack per thread: independent statement of the property on the impl transcript"""
    stacks, nid = {}, {}
    for i, (l, o) in enumerate(zip(case, out)):
        t = l.split()
        if "LEAK" in o:
            return "after every thread of the script has exited %s heap block(s) obtained by the scope machinery are still allocated" % o.split("LEAK:")[1]
        if len(t) < 3:
            continue
        tid, op = t[1], t[2]
        st = stacks.setdefault(tid, [])      # list of [id, defers], innermost last
        if "CORRUPT" in o:
            return "block of a live scope changed: line %d %s -> %s" % (i, l, o)
        if op == "begin":
            k = nid.get(tid, 0); nid[tid] = k + 1
            if o != "s%d" % k:
                return "begin returned %s" % o
            st.append([k, []])
        elif op == "defer":
            for s in st:
                if s[0] == int(t[3]):
                    s[1].append(int(t[4]))
        elif op == "fresh":
            if o != "fallback":
                return "line %d: before the process had begun any scope the last scope was reported as %s" % (i, o)
        elif op == "last":
            want = "s%d" % st[-1][0] if st else "fallback"
            if o != want:
                return "line %d: last scope reported %s, innermost live scope is %s" % (i, o, want)
        elif op in ("end", "exit"):
            evs = []
            if op == "end":
                k = int(t[3])
                idx = next(j for j, s in enumerate(st) if s[0] == k)
            else:
                idx = 0
            for s in reversed(st[idx:]):
                evs += ["c%d" % d for d in reversed(s[1])] + ["r%d" % s[0]]
            del st[idx:]
            want = " ".join(evs) or "-"
            if o != want:
                return "line %d (%s): events %s, expected %s" % (i, l, o[:300], want[:300])
    return None


def gen_thread(r, tid, deep):
    lines, live, nid = [], [], 0
    maxdepth = r.choice([70, 130, 200, 460, 600]) if deep else r.choice([3, 8, 20, 66])
    rounds = r.randrange(1, 6 if deep else 12)
    for _ in range(rounds):
        target = r.randrange(1, maxdepth + 1)
        while len(live) < target:
            lines.append("sc %d begin %d" % (tid, r.choice([0, 0, 16, 100, 1000])))
            live.append(nid); nid += 1
            k = r.random()
            if k < 0.25:
                nd = r.choice([1, 3, 4, 5, 8, 9, 16, 17, 33, 40]) if r.random() < 0.3 else r.randrange(1, 4)
                who = live[-1] if r.random() < 0.7 else r.choice(live)
                for _ in range(nd):
                    lines.append("sc %d defer %d %d" % (tid, who, r.randrange(1000)))
            elif k < 0.35:
                lines.append("sc %d alloc %d %d" % (tid, r.choice(live), r.choice([0, 1, 24, 300, 5000])))
            if r.random() < 0.05:
                lines.append("sc %d last%s" % (tid, " null" if r.random() < 0.5 else ""))
        # end the innermost / a middle / the outermost live scope (forgotten ends in between)
        while live and r.random() < 0.8:
            m = r.random()
            k = live[-1] if m < 0.5 else (live[0] if m < 0.6 else r.choice(live))
            lines.append("sc %d end %d" % (tid, k))
            live = live[:live.index(k)]
            lines.append("sc %d last%s" % (tid, " null" if r.random() < 0.5 else ""))
            if r.random() < 0.3:
                break
    if r.random() < 0.6:
        lines.append("sc %d exit" % tid)
    else:
        while live:
            k = r.choice([live[0], live[-1]])
            lines.append("sc %d end %d" % (tid, k)); live = live[:live.index(k)]
        lines.append("sc %d last%s" % (tid, " null" if r.random() < 0.5 else ""))
    return lines


def boundary_cases():
    """nest D deep, end the scope sitting just before / at / after a boundary of the factory's nodes (64, 194, 454 scopes)
    while the deeper ones are live, look at the innermost scope, go on"""
    out = []
    for D in (70, 200, 300, 460, 500):
        for k in (62, 63, 64, 65, 66, 192, 193, 194, 195, 196, 452, 453, 454, 455, 456):
            if k >= D: continue
            lines = ["sc 0 begin 0" for _ in range(D)]
            lines += ["sc 0 end %d" % k, "sc 0 last", "sc 0 begin 16", "sc 0 begin 0", "sc 0 last", "sc 0 end %d" % (k - 1), "sc 0 last",
                      "sc 0 begin 0", "sc 0 last"]
            lines += ["sc 0 exit"] if (D + k) % 2 else ["sc 0 end 0", "sc 0 last"]
            lines.append("sc end")
            out.append(lines)
    return out


def many_defers_cases(r):
    """one scope takes thousands of defers: its stack of deferred calls outgrows the scope arena's node size limit
    (2049 entries of 16 bytes = a 64 KiB request against a 32 KiB limit), with live neighbours before and after"""
    out = []
    for n in (2049, 3000, 4100, 5000):
        lines = ["sc 0 begin 0", "sc 0 alloc 0 24", "sc 0 begin 100", "sc 0 alloc 1 300"]
        lines += ["sc 0 defer 1 %d" % (i % 1000) for i in range(n)]
        lines += ["sc 0 alloc 1 24", "sc 0 defer 0 7", "sc 0 begin 0", "sc 0 defer 2 9", "sc 0 last"]
        lines += ["sc 0 end 1", "sc 0 last", "sc 0 end 0", "sc 0 last"] if n % 2 else ["sc 0 exit"]
        lines.append("sc end")
        out.append(lines)
    return out


def main_thread_cases(r):
    """scripts for the MAIN thread that return from main() with live scopes (the process-exit path of the library)"""
    out = []
    for k in range(6):
        lines, live, nid = [], [], 0
        for _ in range(r.randrange(2, 7)):
            lines.append("sc 0 begin %d" % r.choice([0, 16, 1000])); live.append(nid); nid += 1
            for _ in range(r.choice([0, 1, 2, 5, 9])):
                lines.append("sc 0 defer %d %d" % (r.choice(live), r.randrange(1000)))
            if r.random() < 0.4:
                lines.append("sc 0 alloc %d %d" % (r.choice(live), r.choice([1, 24, 300])))
        if k % 2 and len(live) > 1:
            lines.append("sc 0 end %d" % live[-1]); live.pop()
        lines += ["sc 0 last", "sc 0 exit", "sc end"]
        out.append(lines)
    return out


def main_thread_exit(ctx, cases=None):
    """the same harness with the script on the main thread, one process per case, built as the tests build the library
    and as a release build (-DNDEBUG): the events printed while the process exits must be the model's"""
    import subprocess
    if cases is None:
        cases = main_thread_cases(ctx.rng)
    if not cases:
        return
    model = ctx.run_model(cases)
    for tag, extra in (("mainthr", ["-DC02_MAIN_THREAD"]), ("mainthr_ndebug", ["-DC02_MAIN_THREAD", "-DNDEBUG"])):
        exe = ctx.build_harness("c02", tag=tag, extra=extra)
        for c, m in zip(cases, model):
            ctx.evaluations += 1
            try:
                p = subprocess.run([exe], input="\n".join(c) + "\n", capture_output=True, text=True, errors="replace", timeout=60)
                got = p.stdout.split("\n"); rc = p.returncode; err = p.stderr
            except subprocess.TimeoutExpired:
                got, rc, err = [], -999, "TIMEOUT"
            got = [g.strip() for g in got]
            while got and got[-1] == "": got.pop()
            k = c.index("sc 0 exit")
            want = [x.strip() for x in m[:k + 1]]
            if len(got) == k: got.append("-")       # nothing ran at exit
            if "ndebug" in tag:
                # gp_heap cannot be replaced in a release build: the releases (r<id>) are not observable, the calls are
                import re
                def calls_only(l):
                    t = l.split()
                    if t and all(re.fullmatch(r"[cr]\d+", x) for x in t):
                        return " ".join(x for x in t if x[0] == "c") or "-"
                    return l
                got, want = [calls_only(x) for x in got], [calls_only(x) for x in want]
            if rc != 0 or got != want:
                first = next((i for i in range(min(len(got), len(want))) if got[i] != want[i]), min(len(got), len(want)))
                ctx.add_witness("main-thread-exit[%s]" % tag, c, got, want,
                                "main thread returns from main() with live scopes (%s build): %s; expected %s%s"
                                % ("-DNDEBUG" if "ndebug" in tag else "default", (got[first] if first < len(got) else "nothing")[:200],
                                   (want[first] if first < len(want) else "nothing")[:200],
                                   "" if rc == 0 else " (exit status %s: %s)" % (rc, err[-300:])))


def gen_case(r, deep):
    nth = 1 if r.random() < 0.7 else r.randrange(2, 5)
    per = [gen_thread(r, t, deep) for t in range(nth)]
    lines = []
    # interleave the threads' lines in the script (each thread still runs its own lines in order)
    idx = [0] * nth
    while any(idx[t] < len(per[t]) for t in range(nth)):
        t = r.choice([t for t in range(nth) if idx[t] < len(per[t])])
        lines.append(per[t][idx[t]]); idx[t] += 1
    lines.append("sc end")
    return lines


def run(ctx):
    ctx.rules.append("a case = 1..4 threads, each a script of begin / alloc / defer (1..40 per scope, crossing the defer "
                     "stack doublings 4,8,16,32) / end(innermost, middle, outermost; forgotten ends) / last / thread exit, "
                     "nesting depth up to 600 (crossing the factory node boundaries 64, 194, 454), 1..12 rounds re-entering "
                     "after the registry grew and emptied a node; non-trivial = at least 3 ops; distinct by script text")
    ctx.assumptions += ["pthread TLS destructors / atexit run gp_delete_scope_factory once per thread (runtime behaviour, "
                        "observed only by the correspondence run)",
                        "scripts are well-formed: only live scopes are ended or deferred on"]
    exe = ctx.build_harness("c02")
    ctx.build_model()
    ctx.prove()
    if ctx.replay_cases is not None:
        cases = ctx.replay_cases
    else:
        quick = ctx.tier == "quick"
        cases = vlib.load_corpus("C02")
        cases.append(["sc 0 fresh", "sc 0 last", "sc 0 last null", "sc 0 begin 0", "sc 0 last", "sc 0 end 0", "sc 0 last null", "sc end"])
        for _ in range(400 if quick else 8000):
            cases.append(gen_case(ctx.rng, deep=False))
        for _ in range(40 if quick else 800):
            cases.append(gen_case(ctx.rng, deep=True))
        cases += boundary_cases()
        cases += many_defers_cases(ctx.rng)
    depths = [max((sum(1 for l in c[:i] if " begin " in l) for i in range(len(c))), default=0) for c in cases[:50]]
    ctx.extra_cov["max_begins_in_sampled_cases"] = max(depths) if depths else 0
    ctx.correspond("scope-scripts", exe, cases, oracle=oracle, nontrivial=lambda c: len(c) >= 4, timeout=1200)
    if ctx.replay_cases is None:
        main_thread_exit(ctx)
    else:
        # a replayed witness of the main-thread variant: single-thread scripts that end by leaving the thread
        main_thread_exit(ctx, [c for c in ctx.replay_cases if "sc 0 exit" in c and all(l.startswith("sc 0 ") or l == "sc end" for l in c)])
