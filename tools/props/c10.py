"""C10 — bounded formatting never writes past its limit and reports the full length."""
import os, sys
sys.path.insert(0, os.path.dirname(os.path.abspath(__file__)))
import vlib
import c09
import printf_ref as R


def oracle(case, out):
    """lines: pf n for n = 0..len+2 (or a sample), last line pf -1 (the unbounded output)"""
    full_r, full_w, _ = c09.parse_out(out[-1])
    for l, o in zip(case[:-1], out[:-1]):
        n = int(l.split()[2])
        r, w, z = c09.parse_out(o)
        if r != full_r:
            return "%s: returned %d, the complete output has %d bytes" % (l, r, full_r)
        if w != full_w[:n]:
            return "%s: first min(ret,n) bytes %r are not a prefix of the unbounded output %r" % (l, w, full_w)
    return None


def run(ctx):
    ctx.rules.append("a case = one (format, arguments) pair of C09's generator run at EVERY limit n = 0..length+2 (sampled "
                     "limits when the output is longer than 150 bytes) with the destination malloc'ed at exactly n bytes "
                     "(AddressSanitizer sees the first byte past the limit), plus the unbounded call; conversions follow "
                     "literal text so that the remaining room differs from the total room; non-trivial = has a conversion; "
                     "distinct by (format, arguments)")
    ctx.assumptions += list(c09_assumptions())
    exe = ctx.build_harness("c09")
    ctx.build_model()
    ctx.prove()
    if ctx.replay_cases is not None:
        cases = ctx.replay_cases
    else:
        quick = ctx.tier == "quick"
        r = ctx.rng
        fm = []
        for _ in range(1500 if quick else 40000):
            fm.append(c09.rand_format(r, nconv=r.choice([1, 1, 2, 3]), wide=r.random() < 0.15))
        for _ in range(150 if quick else 4000):          # wide characters straddling the limit
            fm.append(c09.lc_format(r))
        for _ in range(150 if quick else 4000):          # library strings cut by precision and by the limit
            fm.append(c09.us_format(r))
        # lengths from the exact reference (the implementation's own unbounded output is compared by the oracle)
        cases = [c for c in vlib.load_corpus("C10") if not c[0].startswith("pf print")]
        nlines = 0
        for fmt, args in fm:
            try:
                ln = len(R.sprintf(fmt, args))
            except Exception:
                continue
            if ln <= 150:
                ns = range(0, ln + 3)
            else:
                ns = sorted(set([0, 1, 2, ln - 1, ln, ln + 1] + [r.randrange(ln) for _ in range(12)]))
            lines = [c09.line("pf", fmt, args, n) for n in ns] + [c09.line("pf", fmt, args, -1)]
            nlines += len(lines)
            cases.append(lines)
        ctx.extra_cov["bounded_calls"] = nlines
    ctx.correspond("bounded-snprintf", exe, cases, oracle=oracle, nontrivial=lambda c: "25" in c[0].split()[3], timeout=600)
    # bounded print / println into byte buffers (malloc(n)) and strings (n-limited), every n
    if ctx.replay_cases is None:
        r = ctx.rng
        pcases = [c for c in vlib.load_corpus("C10") if c[0].startswith("pf print")]
        for _ in range(400 if ctx.tier == "quick" else 12000):
            objs = c09.rand_objs(r)
            if not objs: continue
            toks = c09.obj_tokens(objs)
            ln = len(c09.print_ref(objs, True))
            ns = range(0, ln + 3) if ln <= 80 else sorted(set([0, 1, 2, ln - 1, ln, ln + 1] + [r.randrange(ln) for _ in range(10)]))
            lines = []
            for n in ns:
                for fn in ("bp", "bpl", "snp", "snpl"):
                    lines.append("pf print %s %d %s" % (fn, n, toks))
            lines.append("pf print bp 100000 " + toks)
            pcases.append(lines)
        ctx.correspond("bounded-print", exe, pcases, oracle=print_oracle, nontrivial=lambda c: True, timeout=600)


def print_oracle(case, out):
    """bp / snp: return value = complete length, bytes = prefix of the unbounded print; println forms: in bounds only
    (AddressSanitizer) - the property states no prefix law for them"""
    d = lambda o: dict(x.split("=", 1) for x in o.split())
    full = d(out[-1]); fw = b"" if full["w"] == "-" else bytes.fromhex(full["w"]); fr = int(full["r"])
    for l, o in zip(case[:-1], out[:-1]):
        t = l.split(); fn, n = t[2], int(t[3])
        if fn not in ("bp", "snp"): continue
        dd = d(o); w = b"" if dd["w"] == "-" else bytes.fromhex(dd["w"])
        if int(dd["r"]) != fr:
            return "%s: returned %s, the complete output has %d bytes" % (l, dd["r"], fr)
        if w != fw[:n]:
            return "%s: wrote %r, not a prefix of the unbounded output %r" % (l, w, fw)
    return None


def c09_assumptions():
    return ["x86-64 SysV calling convention for the variadic harness call (see C09)",
            "the destination does not overlap the arguments (restrict)"]
