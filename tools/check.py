#!/usr/bin/env python3
"""python3 tools/check.py Cxx [--tier quick|thorough] [--replay file]

exit 0: property held on everything explored; exit 1 + `VIOLATION property=Cxx replay=...`;
exit 2: infrastructure error (no verdict)."""
import argparse
import importlib
import json
import os
import sys
import traceback

sys.path.insert(0, os.path.dirname(os.path.abspath(__file__)))
import vlib  # noqa: E402


def main():
    ap = argparse.ArgumentParser()
    ap.add_argument("pid")
    ap.add_argument("--tier", default=os.environ.get("VERIF_TIER", "quick"), choices=["quick", "thorough"])
    ap.add_argument("--replay")
    ap.add_argument("--seed", type=int, default=int(os.environ.get("VERIF_SEED", "1") or 1))
    a = ap.parse_args()
    mod = importlib.import_module("props." + a.pid.lower())
    ctx = vlib.Ctx(a.pid, a.tier, a.seed, level=getattr(mod, "LEVEL", "proof"))
    if a.replay:
        ctx.replay_cases = json.load(open(a.replay)).get("cases", [])
    try:
        mod.run(ctx)
        rc = ctx.finish()
    except vlib.InfraError as e:
        print("INFRA-ERROR %s: %s" % (a.pid, e), file=sys.stderr)
        rc = 2
    except Exception:
        traceback.print_exc()
        rc = 2
    finally:
        ctx.cleanup()
    sys.exit(rc)


if __name__ == "__main__":
    main()
