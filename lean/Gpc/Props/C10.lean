import Gpc.Proofs.PFString
namespace Gpc.PF
theorem placeholder_c10 : True := trivial
end Gpc.PF
