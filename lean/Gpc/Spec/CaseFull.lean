import Gpc.Model.CaseFull
import Gpc.Ucd.Case
import Gpc.Ucd.CaseFull
/-
Specification of the Unicode default full case conversion (Unicode 14, 3.13 Default Case Algorithms
with SpecialCasing.txt) over lists of code points: every code point is replaced by its full mapping,
except under the conditions of Table 3-17 (Final_Sigma, After_Soft_Dotted, More_Above, Before_Dot,
After_I) and the language-sensitive rules for Lithuanian and Turkish/Azeri.
Tables: `Gpc.Ucd` (vendored).  Contexts are evaluated as ICU and CPython do: case-ignorable
characters are skipped first, then the next character is tested for Cased.
-/
namespace Gpc.SpecCase
open Gpc.CaseFull (Loc inRanges lookupOr)
open Gpc.CaseTable (apply)

def cased (c : Nat) : Bool := inRanges Gpc.Ucd.cased c
def caseIgnorable (c : Nat) : Bool := inRanges Gpc.Ucd.caseIgnorable c
def softDotted (c : Nat) : Bool := inRanges Gpc.Ucd.softDotted c
def ccc230 (c : Nat) : Bool := inRanges Gpc.Ucd.ccc230 c
/-- combining class 0 -/
def cccZero (c : Nat) : Bool := !ccc230 c && !inRanges Gpc.Ucd.cccOther c

def simpleUpper (c : Nat) : Nat := apply Gpc.Ucd.upper c
def simpleLower (c : Nat) : Nat := apply Gpc.Ucd.lower c
def simpleTitle (c : Nat) : Nat := apply Gpc.Ucd.title c

/-- full mapping of a code point on its own (the unconditional and the language-only rules) -/
def upper1 : Loc → Nat → List Nat
  | .n, c => lookupOr Gpc.Ucd.fullUpperN c [simpleUpper c]
  | .tr, c => lookupOr Gpc.Ucd.fullUpperTr c [simpleUpper c]
  | .lt, c => lookupOr Gpc.Ucd.fullUpperLt c [simpleUpper c]
def lower1 : Loc → Nat → List Nat
  | .n, c => lookupOr Gpc.Ucd.fullLowerN c [simpleLower c]
  | .tr, c => lookupOr Gpc.Ucd.fullLowerTr c [simpleLower c]
  | .lt, c => lookupOr Gpc.Ucd.fullLowerLt c [simpleLower c]
def title1 : Loc → Nat → List Nat
  | .n, c => lookupOr Gpc.Ucd.fullTitleN c [simpleTitle c]
  | .tr, c => lookupOr Gpc.Ucd.fullTitleTr c [simpleTitle c]
  | .lt, c => lookupOr Gpc.Ucd.fullTitleLt c [simpleTitle c]
def fold1 : Loc → Nat → List Nat
  | .tr, c => lookupOr Gpc.Ucd.fullFoldTr c [simpleLower c]
  | _, c => lookupOr Gpc.Ucd.fullFoldN c [simpleLower c]

/-! contexts: `before` is the text before C, nearest code point first; `after` the text after C -/

def nextCased (l : List Nat) : Bool := match l.dropWhile caseIgnorable with | c :: _ => cased c | [] => false

def finalSigma (before after : List Nat) : Bool := nextCased before && !nextCased after

/-- the first code point of combining class 0 or 230 in `l`, if any -/
def firstStop (l : List Nat) : Option Nat := l.find? fun c => cccZero c || ccc230 c

def afterSoftDotted (before : List Nat) : Bool :=
  -- a soft-dotted character before C with no intervening class 0 / 230
  (before.takeWhile fun c => !softDotted c && !(cccZero c || ccc230 c)).length < before.length &&
    (match before.dropWhile (fun c => !softDotted c && !(cccZero c || ccc230 c)) with | c :: _ => softDotted c | [] => false)

def moreAbove (after : List Nat) : Bool := match firstStop after with | some c => ccc230 c | none => false

def beforeDot (after : List Nat) : Bool :=
  match after.dropWhile (fun c => c ≠ 0x307 && !(cccZero c || ccc230 c)) with | c :: _ => c = 0x307 | [] => false

def afterI (before : List Nat) : Bool :=
  match before.dropWhile (fun c => c ≠ 0x49 && !(cccZero c || ccc230 c)) with | c :: _ => c = 0x49 | [] => false

/-- toLowercase(X) with the conditional mappings -/
def lowerAux (loc : Loc) : List Nat → List Nat → List Nat
  | _, [] => []
  | before, c :: after =>
    let out : List Nat :=
      if c = 0x3A3 then [if finalSigma before after then 0x3C2 else 0x3C3]
      else if loc = .lt ∧ (c = 0x49 ∨ c = 0x4A ∨ c = 0x12E) ∧ moreAbove after then
        [if c = 0x49 then 0x69 else if c = 0x4A then 0x6A else 0x12F, 0x307]
      else if loc = .tr ∧ c = 0x307 ∧ afterI before then []
      else if loc = .tr ∧ c = 0x49 ∧ !beforeDot after then [0x131]
      else if loc = .tr ∧ c = 0x49 then [0x69]
      else lower1 loc c
    out ++ lowerAux loc (c :: before) after

def toLower (loc : Loc) (cps : List Nat) : List Nat := lowerAux loc [] cps

/-- toUppercase(X) -/
def upperAux (loc : Loc) : List Nat → List Nat → List Nat
  | _, [] => []
  | before, c :: after =>
    (if loc = .lt ∧ c = 0x307 ∧ afterSoftDotted before then [] else upper1 loc c) ++ upperAux loc (c :: before) after

def toUpper (loc : Loc) (cps : List Nat) : List Nat := upperAux loc [] cps

/-- capitalisation: the titlecase mapping of the first code point, the rest unchanged (for Lithuanian the
dot above that the first, soft-dotted, letter carries is removed with it) -/
def capitalize (loc : Loc) : List Nat → List Nat
  | [] => []
  | c :: rest =>
    title1 loc c ++ (match rest with
      | d :: rest' => if loc = .lt ∧ d = 0x307 ∧ softDotted c then rest' else d :: rest'
      | [] => [])

def toFold (loc : Loc) (cps : List Nat) : List Nat := cps.flatMap (fold1 loc)

end Gpc.SpecCase
