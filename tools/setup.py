#!/usr/bin/env python3
"""offline setup: build the model driver and, as far as it goes, the whole Lean library.

Only a driver that does not build is a setup failure.  The property theorems (Gpc.Props.*) are re-checked by every
check itself against tables and skeletons regenerated from /repo's current sources; if /repo has changed since the
generated files were committed, some of them may not build here - that is for the property's check to report, not a
reason to run no check at all."""
import os
import subprocess
import sys
ROOT = os.path.dirname(os.path.dirname(os.path.abspath(__file__)))
LEAN = os.path.join(ROOT, "lean")
r = subprocess.run(["lake", "build", "gpcmodel"], cwd=LEAN)
if r.returncode != 0:
    sys.exit(r.returncode)
r2 = subprocess.run(["lake", "build", "Gpc"], cwd=LEAN)
if r2.returncode != 0:
    print("setup: some property theorems do not build against the committed generated files; the checks regenerate "
          "them from /repo and report per property")
sys.exit(0)
