import Gpc.Model.CaseFull
import Gpc.Model.Utf
/-
Model of string comparison and sorting anchored by C13 (src/unicode.c gp_str_compare, gp_str_sort
and their comparators), over lists of code points (the operands are valid UTF-8).
Plain comparison: first differing code point decides, else the lengths.  Fold / collate: both
operands become wide strings (full case folding by the regenerated table `fold1`, or plain
conversion) and are compared element by element over their whole length, or by `wcscoll` in the C.UTF-8 locale (code
point order; for `wcscoll` a wide string ends at its first zero).
-/
namespace Gpc.Compare
open Gpc.CaseFull (Loc foldFull)

/-- sign of an integer as -1 / 0 / 1 -/
def sgn (x : Int) : Int := if x < 0 then -1 else if x = 0 then 0 else 1

/-- the code point loop of `gp_str_compare` / `gp_utf8_codepoint_compare` -/
def cmpCps : List Nat → List Nat → Int
  | [], [] => 0
  | [], _ :: _ => -1
  | _ :: _, [] => 1
  | a :: as, b :: bs => if a = b then cmpCps as bs else (a : Int) - (b : Int)

/-- the byte loop of `gp_str_compare` without fold / collate, as the C code runs it: decode the code point at the
same byte position of both strings, let the first difference decide, advance by the length of the first string's
code point; when one string is exhausted the remaining lengths decide (both have consumed the same number of
bytes, so that is the difference of the total lengths).  `none` = a byte that cannot be decoded. -/
def cmpBytes (s1 s2 : List UInt8) : (fuel : Nat) → Option Int
  | 0 => none
  | fuel + 1 =>
    if s1.isEmpty || s2.isEmpty then some ((s1.length : Int) - (s2.length : Int)) else
    match Gpc.Utf.decodeU8 s1, Gpc.Utf.decodeU8 s2 with
    | some (c1, n1), some (c2, _) =>
      if c1 ≠ c2 then some ((c1 : Int) - (c2 : Int))
      else if n1 = 0 then none
      else cmpBytes (s1.drop n1) (s2.drop n1) fuel
    | _, _ => none

/-- what `wcscmp` sees: the wide string up to its terminator -/
def cstr (w : List Nat) : List Nat := w.takeWhile (· ≠ 0)

/-- `gp_str_compare(s1, s2, flags, locale)`: fold = GP_CASE_FOLD, collate = GP_COLLATE (C.UTF-8) -/
def compare (fold collate reverse : Bool) (loc : Loc) (s1 s2 : List Nat) : Int :=
  let r :=
    if !fold && !collate then sgn (cmpCps s1 s2)
    else
      let w1 := if fold then foldFull loc s1 else s1
      let w2 := if fold then foldFull loc s2 else s2
      -- collation goes through `wcscoll`, which stops at a terminator; plain folding compares whole arrays
      if collate then sgn (cmpCps (cstr w1) (cstr w2)) else sgn (cmpCps w1 w2)
  if reverse then -r else r

/-- the key `gp_str_sort` sorts by -/
def sortKey (fold collate : Bool) (loc : Loc) (s : List Nat) : List Nat :=
  if !fold && !collate then s
  else if collate then cstr (if fold then foldFull loc s else s)
  else foldFull loc s

/-- insertion into a list sorted by `le` (the model's stand-in for `qsort`: any sorting algorithm
yields a sorted permutation; which one of several equal keys comes first is unspecified) -/
def insertBy (le : α → α → Bool) (x : α) : List α → List α
  | [] => [x]
  | y :: ys => if le x y then x :: y :: ys else y :: insertBy le x ys

def sortBy (le : α → α → Bool) : List α → List α
  | [] => []
  | x :: xs => insertBy le x (sortBy le xs)

/-- `gp_str_sort(strs, flags, locale)` -/
def sort (fold collate reverse : Bool) (loc : Loc) (strs : List (List Nat)) : List (List Nat) :=
  let key := sortKey fold collate loc
  sortBy (fun a b => if reverse then cmpCps (key b) (key a) ≤ 0 else cmpCps (key a) (key b) ≤ 0) strs

end Gpc.Compare
