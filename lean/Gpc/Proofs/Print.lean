import Gpc.Proofs.Printf
import Gpc.Model.Print
/-! The type-directed print family stays inside its limit and (print) leaves a prefix of the complete text. -/
namespace Gpc.Printf
open Gpc.PF (PF Agrees)

theorem reverseCopy_ok (d : Bytes) (off n : Nat) (ds : Bytes) (hn : n = 0 ∨ off + n ≤ d.length) :
    ∃ d', PF.reverseCopy d off ds n = some d' ∧ d'.length = d.length ∧
      (∀ j, j < off → d'[j]? = d[j]?) ∧ (∀ j, j < min n ds.length → d'[off + j]? = ds[j]?) := by
  unfold PF.reverseCopy
  obtain ⟨d1, e1, l1, g1⟩ := PF.wr_some d off (ds.take (min n ds.length)) (by simp only [List.length_take]; omega)
  by_cases hlt : ds.length < n
  · obtain ⟨d2, e2, l2, g2⟩ := PF.wr_some d1 (off + ds.length) [0] (Or.inr (by simp only [List.length_singleton]; omega))
    refine ⟨d2, by simp [e1, hlt, e2], by omega, fun j hj => ?_, fun j hj => ?_⟩
    · rw [g2 j, if_neg (by omega), g1 j, if_neg (by omega)]
    · rw [g2 (off + j), if_neg (by omega), g1 (off + j), if_pos (by simp only [List.length_take]; omega),
        List.getElem?_take, if_pos (by omega)]
      congr 1; omega
  · refine ⟨d1, by simp [e1, hlt], l1, fun j hj => ?_, fun j hj => ?_⟩
    · rw [g1 j, if_neg (by omega)]
    · rw [g1 (off + j), if_pos (by simp only [List.length_take]; omega), List.getElem?_take, if_pos (by omega)]
      congr 1; omega

theorem writeRev_ok (p : PF) (full ds : Bytes) (h : Agrees p full) :
    ∃ p', writeRev p ds = some p' ∧ p'.cap = p.cap ∧ Agrees p' (full ++ ds) := by
  have hcap : PF.capLeft p = 0 ∨ p.length + PF.capLeft p ≤ p.data.length := by
    simp only [PF.capLeft_eq, PF.cap]; omega
  obtain ⟨d', e, l, g0, g1⟩ := reverseCopy_ok p.data p.length (PF.capLeft p) ds hcap
  refine ⟨{ data := d', length := p.length + ds.length }, by simp [writeRev, e], by simp [PF.cap, l], by simp [h.1], ?_⟩
  intro i hi1 hi2
  simp only [PF.cap, l] at hi1
  simp only [List.length_append] at hi2
  by_cases c : i < full.length
  · rw [List.getElem?_append_left c, g0 i (by rw [h.1]; exact c)]; exact h.2 i hi1 c
  · rw [List.getElem?_append_right (by omega)]
    have := g1 (i - full.length) (by simp only [PF.capLeft_eq, PF.cap, h.1]; omega)
    rw [← this, h.1]; congr 1; omega

theorem writeItoa_ok (p : PF) (full : Bytes) (v : Int) (h : Agrees p full) :
    ∃ p', writeItoa p v = some p' ∧ p'.cap = p.cap ∧
      Agrees p' (full ++ (if v < 0 then [45] else []) ++ PF.digits 10 false v.natAbs) := by
  unfold writeItoa
  by_cases hn : v < 0
  · obtain ⟨p1, e1, c1, a1⟩ := PF.push_ok p full 45 h
    obtain ⟨p2, e2, c2, a2⟩ := writeRev_ok p1 _ (PF.digits 10 false v.natAbs) a1
    exact ⟨p2, by simp [hn, e1, e2], by rw [c2, c1], by simpa [hn] using a2⟩
  · obtain ⟨p2, e2, c2, a2⟩ := writeRev_ok p full (PF.digits 10 false v.natAbs) h
    exact ⟨p2, by simp [hn, e2], c2, by simpa [hn] using a2⟩

/-- the text the model writes for one value (floating point: through the plan of output steps) -/
def valModelText : Kind → Arg → Option Bytes
  | .dbl, .dbl bits => some (floatModelText gSpec bits)
  | .dbl, _ => none
  | k, v => valText k v

theorem signedArg_abs_lt (len : LenMod) (raw : Nat) : (signedArg len raw).natAbs < 10 ^ 64 := by
  have : (signedArg len raw).natAbs ≤ 2 ^ 64 := by
    unfold signedArg
    have hb : len.bits ≤ 64 := by cases len <;> simp [LenMod.bits]
    have hp : 2 ^ len.bits ≤ 2 ^ 64 := Nat.pow_le_pow_right (by omega) hb
    have hm : raw % 2 ^ len.bits < 2 ^ len.bits := Nat.mod_lt _ (Nat.pow_pos (by omega))
    simp only
    split <;> omega
  have : (2:Nat) ^ 64 < 10 ^ 64 := by decide
  omega

theorem signedArg_abs_le (len : LenMod) (raw : Nat) : (signedArg len raw).natAbs ≤ 2 ^ (len.bits - 1) := by
  unfold signedArg
  have hb : 1 ≤ len.bits := by cases len <;> simp [LenMod.bits]
  have hp : 2 ^ len.bits = 2 ^ (len.bits - 1) * 2 := by
    rw [← Nat.pow_succ]; congr 1; omega
  have hm : raw % 2 ^ len.bits < 2 ^ len.bits := Nat.mod_lt _ (Nat.pow_pos (by omega))
  simp only
  generalize 2 ^ (len.bits - 1) = hlf at *
  generalize 2 ^ len.bits = full at *
  split <;> omega

/-- `%d` with no flags, width or precision is sign and digits -/
theorem fmtSigned_plain (len : LenMod) (raw : Nat) :
    fmtSigned { conv := 'd', len := len } raw =
      (if signedArg len raw < 0 then [45] else []) ++ natDigits 10 false (signedArg len raw).natAbs := by
  unfold fmtSigned padField signBytes precDigits
  simp

theorem printItoa_ok (p : PF) (full : Bytes) (len : LenMod) (raw : Nat) (h : Agrees p full) :
    ∃ p', writeItoa p (signedArg len raw) = some p' ∧ p'.cap = p.cap ∧
      Agrees p' (full ++ fmtSigned { conv := 'd', len := len } raw) := by
  obtain ⟨p', e, c, a⟩ := writeItoa_ok p full (signedArg len raw) h
  refine ⟨p', e, c, ?_⟩
  rw [fmtSigned_plain, ← digits_eq 10 false _ (by omega) (signedArg_abs_lt len raw), ← List.append_assoc]
  exact a

theorem printUInt_ok (p : PF) (full : Bytes) (base : Nat) (x : Nat) (h : Agrees p full) (hb : 2 ≤ base) (hx : x < base ^ 64) :
    ∃ p', PF.writeUInt p base false none x = some p' ∧ p'.cap = p.cap ∧ Agrees p' (full ++ natDigits base false x) := by
  obtain ⟨p', e, c, a⟩ := PF.writeUInt_ok p full base false none x h
  refine ⟨p', e, c, ?_⟩
  rw [digits_eq base false x hb hx] at a
  simpa [PF.zeroFill] using a

/-- the default `%g` has no sign flags, no width: its text is sign ++ digits of the plan -/
theorem floatModelText_g (bits : Nat) :
    floatModelText gSpec bits = (floatParts gSpec bits).1 ++
      PF.planText (if (floatParts gSpec bits).2.2 then [PF.Emit.concat (floatParts gSpec bits).2.1] else bodyPlan (floatParts gSpec bits).2.1) := by
  unfold floatModelText padField
  simp [gSpec]

theorem printVal_ok (p : PF) (full t : Bytes) (k : Kind) (v : Arg) (h : Agrees p full) (ht : valModelText k v = some t) :
    ∃ p', printVal p k v = some (some p') ∧ p'.cap = p.cap ∧ Agrees p' (full ++ t) := by
  have h32 : ∀ raw : Nat, raw % 2 ^ 32 < 10 ^ 64 := fun raw => by
    have : raw % 2 ^ 32 < 2 ^ 32 := Nat.mod_lt _ (by decide)
    have : (2:Nat) ^ 32 < 10 ^ 64 := by decide
    omega
  have h64 : ∀ raw : Nat, raw % 2 ^ 64 < 10 ^ 64 := fun raw => by
    have : raw % 2 ^ 64 < 2 ^ 64 := Nat.mod_lt _ (by decide)
    have : (2:Nat) ^ 64 < 10 ^ 64 := by decide
    omega
  have h64x : ∀ raw : Nat, raw % 2 ^ 64 < 16 ^ 64 := fun raw => by
    have : raw % 2 ^ 64 < 2 ^ 64 := Nat.mod_lt _ (by decide)
    have : (2:Nat) ^ 64 < 16 ^ 64 := by decide
    omega
  cases k <;> cases v <;> simp only [valModelText, valText] at ht <;> (try (cases ht)) <;> simp only [printVal]
  · -- chr
    obtain ⟨p', e, c, a⟩ := PF.push_ok p full _ h; exact ⟨p', by simp [e], c, a⟩
  · obtain ⟨p', e, c, a⟩ := printUInt_ok p full 10 _ h (by omega) (h32 _); exact ⟨p', by simp [e], c, a⟩
  · obtain ⟨p', e, c, a⟩ := printUInt_ok p full 10 _ h (by omega) (h64 _); exact ⟨p', by simp [e], c, a⟩
  · obtain ⟨p', e, c, a⟩ := PF.concat_ok p full _ h; exact ⟨p', by rw [e]; rfl, c, a⟩
  · obtain ⟨p', e, c, a⟩ := printItoa_ok p full .none _ h; exact ⟨p', by simp [e], c, a⟩
  · obtain ⟨p', e, c, a⟩ := printItoa_ok p full .ll _ h; exact ⟨p', by simp [e], c, a⟩
  · -- dbl
    rename_i bits
    obtain ⟨p', e, c, a⟩ := PF.writeFloat_ok p full (floatPlan gSpec bits).1 h
    refine ⟨p', by simp [e], c, ?_⟩
    have hfp : (floatPlan gSpec bits).1 = (floatParts gSpec bits).1.map PF.Emit.push ++
        (if (floatParts gSpec bits).2.2 then [PF.Emit.concat (floatParts gSpec bits).2.1] else bodyPlan (floatParts gSpec bits).2.1) := by
      unfold floatPlan; rfl
    rw [hfp, planText_append, planText_push] at a
    rw [floatModelText_g]; exact a
  · obtain ⟨p', e, c, a⟩ := PF.concat_ok p full _ h; exact ⟨p', by simp [e], c, a⟩
  · obtain ⟨p', e, c, a⟩ := PF.concat_ok p full _ h; exact ⟨p', by simp [e], c, a⟩
  · -- ptr
    rename_i raw
    by_cases h0 : raw % 2 ^ 64 ≠ 0
    · obtain ⟨p1, e1, c1, a1⟩ := PF.concat_ok p full [48, 120] h
      obtain ⟨p2, e2, c2, a2⟩ := printUInt_ok p1 _ 16 (raw % 2 ^ 64) a1 (by omega) (h64x _)
      refine ⟨p2, by simp [h0, e1, e2], by rw [c2, c1], ?_⟩
      simpa [h0, List.append_assoc] using a2
    · obtain ⟨p', e, c, a⟩ := PF.concat_ok p full [40, 110, 105, 108, 41] h
      refine ⟨p', by simp [h0, e], c, ?_⟩
      simpa [h0] using a

/-- a sub-string run on the window `data + length` of `capacity - length` bytes, spliced back -/
theorem window_splice (p w : PF) (full text : Bytes) (h : Agrees p full)
    (hw : w.data.length = p.cap - min p.length p.cap) (a : Agrees w text) :
    ({ data := p.data.take (min p.length p.cap) ++ w.data, length := p.length + w.length } : PF).cap = p.cap ∧
    Agrees { data := p.data.take (min p.length p.cap) ++ w.data, length := p.length + w.length } (full ++ text) := by
  obtain ⟨data, length⟩ := p
  obtain ⟨hl, hg⟩ := h
  simp only [PF.cap] at hl hg hw ⊢
  subst hl
  generalize hk : min full.length data.length = k at *
  refine ⟨by simp only [List.length_append, List.length_take, hw]; omega, by simp [a.1], fun i hi1 hi2 => ?_⟩
  simp only [PF.cap, List.length_append, List.length_take, hw] at hi1
  simp only [List.length_append] at hi2
  have hi : i < data.length := by omega
  have hlk : (data.take k).length = k := by simp only [List.length_take]; omega
  by_cases c : i < full.length
  · rw [List.getElem?_append_left c, List.getElem?_append_left (by omega), List.getElem?_take, if_pos (by omega)]
    exact hg i hi c
  · have hkf : k = full.length := by omega
    rw [List.getElem?_append_right (by omega), List.getElem?_append_right (by omega), hlk, hkf]
    exact a.2 _ (by simp only [PF.cap, hw]; omega) (by omega)

theorem finish_ok (w : PF) (text : Bytes) (a : Agrees w text) :
    ∃ w', finish w = some w' ∧ w'.cap = w.cap ∧ Agrees w' text := by
  unfold finish
  split
  · rename_i hlt
    obtain ⟨d', e', l', g'⟩ := PF.wr_some w.data w.length [0] (Or.inr (by simp only [List.length_singleton, PF.cap] at *; omega))
    refine ⟨{ w with data := d' }, by simp [e'], by simp [PF.cap, l'], a.1, fun i hi1 hi2 => ?_⟩
    simp only [PF.cap, l'] at hi1
    rw [g' i, if_neg (by rw [a.1]; omega)]; exact a.2 i hi1 hi2
  · exact ⟨w, rfl, rfl, a⟩

/-- an embedded format string is written into the room that is left, terminator included -/
theorem writeFormat_ok (p : PF) (full t fmt : Bytes) (args : List Arg) (h : Agrees p full)
    (hg : genFormat (convText floatModelText) (fmt.length + 1) fmt args = some t) :
    ∃ p', writeFormat p fmt args = some (some p') ∧ p'.cap = p.cap ∧ Agrees p' (full ++ t) := by
  have hw0 : Agrees ({ data := p.data.drop (min p.length p.cap), length := 0 } : PF) [] :=
    ⟨rfl, fun i _ hi => by simp at hi⟩
  obtain ⟨w1, e1, c1, a1⟩ := vsnprintf_ok (fmt.length + 1) _ [] t fmt args hw0 hg
  simp only [List.nil_append] at a1
  obtain ⟨w2, e2, c2, a2⟩ := finish_ok w1 t a1
  have hcw : w2.data.length = p.cap - min p.length p.cap := by
    have := c2.trans c1; simpa [PF.cap] using this
  obtain ⟨hc, ha⟩ := window_splice p w2 full t h hcw a2
  exact ⟨_, by simp [writeFormat, e1, e2], hc, ha⟩

/-- the text of a print call as the model writes it -/
def printModelText (fuel : Nat) (objs : List Obj) : Option Bytes :=
  match fuel, objs with
  | 0, _ => none
  | _, [] => some []
  | fuel + 1, o :: rest =>
    if o.kind = 'F' then
      match o.val with
      | .str fmt =>
        match genFormat (convText floatModelText) ((cstrlen fmt).length + 1) (cstrlen fmt) (splitFmtArgs fmt rest).1,
              printModelText fuel (splitFmtArgs fmt rest).2 with
        | some t, some tail => some (t ++ tail)
        | _, _ => none
      | _ => none
    else
      match (kindOf o.kind).bind (fun k => valModelText k o.val), printModelText fuel rest with
      | some t, some tail => some (t ++ tail)
      | _, _ => none

/-- **bounded print**: inside the limit, a prefix of the complete text, and the complete length -/
theorem printObjs_ok (fuel : Nat) : ∀ (p : PF) (full t : Bytes) (objs : List Obj), Agrees p full →
    printModelText fuel objs = some t →
    ∃ p', printObjs fuel p objs false = some (some p') ∧ p'.cap = p.cap ∧ Agrees p' (full ++ t) := by
  induction fuel with
  | zero => intro p full t objs _ ht; simp [printModelText] at ht
  | succ f ih =>
    intro p full t objs h ht
    cases objs with
    | nil => simp only [printModelText] at ht; cases ht; exact ⟨p, by simp [printObjs], rfl, by simpa using h⟩
    | cons o rest =>
      simp only [printModelText] at ht
      simp only [printObjs]
      by_cases hF : o.kind = 'F'
      · simp only [hF, if_true] at ht ⊢
        cases hv : o.val with
        | int raw => simp [hv] at ht
        | dbl bits => simp [hv] at ht
        | gstr g => simp [hv] at ht
        | str fmt =>
          simp only [hv] at ht ⊢
          cases hg : genFormat (convText floatModelText) ((cstrlen fmt).length + 1) (cstrlen fmt) (splitFmtArgs fmt rest).1 with
          | none => simp [hg] at ht
          | some t1 =>
            cases hr : printModelText f (splitFmtArgs fmt rest).2 with
            | none => simp [hg, hr] at ht
            | some tail =>
              simp only [hg, hr] at ht; cases ht
              obtain ⟨p1, e1, c1, a1⟩ := writeFormat_ok p full t1 (cstrlen fmt) _ h hg
              obtain ⟨p2, e2, c2, a2⟩ := ih p1 _ tail _ a1 hr
              exact ⟨p2, by simp [e1, e2], by rw [c2, c1], by simpa [List.append_assoc] using a2⟩
      · simp only [hF, if_false] at ht ⊢
        cases hk : kindOf o.kind with
        | none => simp [hk] at ht
        | some k =>
          cases hv : valModelText k o.val with
          | none => simp [hk, hv] at ht
          | some t1 =>
            cases hr : printModelText f rest with
            | none => simp [hk, hv, hr] at ht
            | some tail =>
              simp only [hk, hv, hr, Option.bind_some] at ht; cases ht
              obtain ⟨p1, e1, c1, a1⟩ := printVal_ok p full t1 k o.val h hv
              obtain ⟨p2, e2, c2, a2⟩ := ih p1 _ tail _ a1 hr
              exact ⟨p2, by simp [printObj, hk, e1, e2], by rw [c2, c1], by simpa [List.append_assoc] using a2⟩

/-- println's separator: written only while there is room; the string stays consistent -/
theorem sep_ok (p : PF) (hex : ∃ full, Agrees p full) :
    ∃ p', (if True ∧ p.length < p.cap then PF.push p 32 else some p) = some p' ∧ p'.cap = p.cap ∧
      (∃ full', Agrees p' full') ∧ p.length ≤ p'.length ∧ (p'.length = 0 → p'.cap = 0) := by
  obtain ⟨full, h⟩ := hex
  by_cases hlt : p.length < p.cap
  · obtain ⟨p', e, c, a⟩ := PF.push_ok p full 32 h
    refine ⟨p', by simp [hlt, e], c, ⟨_, a⟩, ?_, ?_⟩
    · rw [a.1, h.1]; simp
    · intro h0; rw [a.1] at h0; simp at h0
  · refine ⟨p, by simp [hlt], rfl, ⟨full, h⟩, Nat.le_refl _, fun h0 => ?_⟩
    omega

/-- **bounded println**: every object and every separator is written inside the limit -/
theorem printlnObjs_ok (fuel : Nat) : ∀ (p : PF) (t : Bytes) (objs : List Obj), (∃ full, Agrees p full) →
    printModelText fuel objs = some t →
    ∃ p', printObjs fuel p objs true = some (some p') ∧ p'.cap = p.cap ∧ (∃ full', Agrees p' full') ∧
      p.length ≤ p'.length ∧ (objs ≠ [] → p'.length = 0 → p'.cap = 0) := by
  induction fuel with
  | zero => intro p t objs _ ht; simp [printModelText] at ht
  | succ f ih =>
    intro p t objs hex ht
    cases objs with
    | nil => exact ⟨p, by simp [printObjs], rfl, hex, Nat.le_refl _, fun h => absurd rfl h⟩
    | cons o rest =>
      obtain ⟨full, h⟩ := hex
      simp only [printModelText] at ht
      simp only [printObjs]
      -- one object, then the separator, then the rest
      have key : ∀ (p1 : PF) (rest' : List Obj) (tail : Bytes), p1.cap = p.cap → (∃ f1, Agrees p1 f1) → p.length ≤ p1.length →
          printModelText f rest' = some tail →
          ∃ p', (match (if True ∧ p1.length < p1.cap then PF.push p1 32 else some p1) with
              | none => none
              | some q => printObjs f q rest' true) = some (some p') ∧ p'.cap = p.cap ∧ (∃ full', Agrees p' full') ∧
            p.length ≤ p'.length ∧ (p'.length = 0 → p'.cap = 0) := by
        intro p1 rest' tail hc1 hex1 hle hr
        obtain ⟨q, eq, cq, exq, lq, zq⟩ := sep_ok p1 hex1
        obtain ⟨p', e', c', ex', l', _⟩ := ih q tail rest' exq hr
        refine ⟨p', by rw [eq]; exact e', by rw [c', cq, hc1], ex', by omega, fun h0 => ?_⟩
        have : q.length = 0 := by omega
        rw [c']; exact zq this
      by_cases hF : o.kind = 'F'
      · simp only [hF, if_true] at ht ⊢
        cases hv : o.val with
        | int raw => simp [hv] at ht
        | dbl bits => simp [hv] at ht
        | gstr g => simp [hv] at ht
        | str fmt =>
          simp only [hv] at ht ⊢
          cases hg : genFormat (convText floatModelText) ((cstrlen fmt).length + 1) (cstrlen fmt) (splitFmtArgs fmt rest).1 with
          | none => simp [hg] at ht
          | some t1 =>
            cases hr : printModelText f (splitFmtArgs fmt rest).2 with
            | none => simp [hg, hr] at ht
            | some tail =>
              obtain ⟨p1, e1, c1, a1⟩ := writeFormat_ok p full t1 (cstrlen fmt) _ h hg
              obtain ⟨p', e', c', ex', l', z'⟩ := key p1 _ tail c1 ⟨_, a1⟩ (by rw [a1.1, h.1]; simp) hr
              exact ⟨p', by simp only [e1]; exact e', c', ex', l', fun _ => z'⟩
      · simp only [hF, if_false] at ht ⊢
        cases hk : kindOf o.kind with
        | none => simp [hk] at ht
        | some k =>
          cases hv : valModelText k o.val with
          | none => simp [hk, hv] at ht
          | some t1 =>
            cases hr : printModelText f rest with
            | none => simp [hk, hv, hr] at ht
            | some tail =>
              obtain ⟨p1, e1, c1, a1⟩ := printVal_ok p full t1 k o.val h hv
              obtain ⟨p', e', c', ex', l', z'⟩ := key p1 _ tail c1 ⟨_, a1⟩ (by rw [a1.1, h.1]; simp) hr
              exact ⟨p', by simp only [printObj, hk, e1]; exact e', c', ex', l', fun _ => z'⟩

theorem printlnEnd_ok (p : PF) (hz : p.length = 0 → p.cap = 0) :
    ∃ p', printlnEnd p = some p' ∧ p'.cap = p.cap ∧ p'.length = p.length := by
  unfold printlnEnd
  by_cases h0 : p.length = 0
  · have := hz h0
    refine ⟨p, ?_, rfl, rfl⟩
    simp [h0, this]
  · simp only [h0, if_false]
    by_cases hc : p.cap > p.length - 1
    · rw [if_pos hc]
      obtain ⟨d', e, l, _⟩ := PF.wr_some p.data (p.length - 1) [10]
        (Or.inr (by simp only [List.length_singleton, PF.cap] at *; omega))
      exact ⟨{ p with data := d' }, by simp [e], by simp [PF.cap, l], rfl⟩
    · rw [if_neg hc]; exact ⟨p, rfl, rfl, rfl⟩

end Gpc.Printf
