import Gpc.Model.Scope
import Gpc.Proofs.Scope
/-!
# C02 — scopes end exactly what was begun after them; defers run once, LIFO; any depth

Refinement of the scope factory (pointer arithmetic over an arena of 64-byte records, parent
pointers, rewind) to a plain stack of scopes.  `Rel f as stk`: the factory `f` represents the
abstract stack `stk` (top first), `as` being the addresses of the live scope records (top first).
Every theorem holds for every depth: `Rel` carries the node structure of the factory arena
("every node holds at least one record"), which is what makes `gp_last_scope_of` meaningful after
the registry has grown past one node and shrunk again.
-/
namespace Gpc.Scope
open Gpc.Arena

/-! ## abstract specification: a stack of scopes -/

structure AScope where
  id : Nat
  defers : List Nat
deriving DecidableEq, Repr

abbrev Stack := List AScope        -- top (innermost) first

/-- ending the scopes `popped` (innermost first): each one's deferred calls in LIFO order, then
its memory is released -/
def specEvents (popped : List AScope) : List Ev :=
  popped.flatMap fun s => s.defers.reverse.map Ev.call ++ [Ev.release s.id]

def specBegin (stk : Stack) (id : Nat) : Stack := ⟨id, []⟩ :: stk
/-- end the scope at depth `i` (0 = innermost): it and everything begun after it -/
def specEnd (stk : Stack) (i : Nat) : Stack × List Ev := (stk.drop (i + 1), specEvents (stk.take (i + 1)))
def specDefer : Stack → Nat → Nat → Stack
  | [], _, _ => []
  | s :: ss, 0, tag => { s with defers := s.defers ++ [tag] } :: ss
  | s :: ss, i + 1, tag => s :: specDefer ss i tag

/-! ## the representation relation -/

/-- parent chain in record memory, top first -/
def Chain (mem : Addr → Option Rec) : List Addr → Stack → Prop
  | [], [] => True
  | a :: as, s :: ss => mem a = some ⟨s.id, as.head?, s.defers⟩ ∧ Chain mem as ss
  | _, _ => False

structure Rel (f : Factory) (as : List Addr) (stk : Stack) : Prop where
  addrs : recAddrs f.arena.nodes = as ++ [selfAddr]
  chain : Chain f.mem as stk
  nodes : NodesOk f.arena

theorem Chain.length {mem : Addr → Option Rec} {as : List Addr} {stk : Stack} (h : Chain mem as stk) :
    as.length = stk.length := by
  induction as generalizing stk with
  | nil => cases stk <;> simp_all [Chain]
  | cons a as ih =>
    cases stk with
    | nil => simp [Chain] at h
    | cons s ss => simp only [List.length_cons]; rw [ih h.2]

theorem Chain.frame {mem : Addr → Option Rec} {as : List Addr} {stk : Stack} (h : Chain mem as stk)
    (p : Addr) (r : Rec) (hp : ∀ a ∈ as, a ≠ p) : Chain (upd mem p r) as stk := by
  induction as generalizing stk with
  | nil => cases stk <;> simp_all [Chain]
  | cons a as ih =>
    cases stk with
    | nil => simp [Chain] at h
    | cons s ss =>
      refine ⟨?_, ih h.2 (fun x hx => hp x (List.mem_cons_of_mem _ hx))⟩
      have : a ≠ p := hp a List.mem_cons_self
      simp only [upd, this, if_false]; exact h.1

theorem Chain.drop {mem : Addr → Option Rec} {as : List Addr} {stk : Stack} (h : Chain mem as stk) (k : Nat) :
    Chain mem (as.drop k) (stk.drop k) := by
  induction k generalizing as stk with
  | zero => simpa
  | succ k ih =>
    cases as with
    | nil => cases stk <;> simp_all [Chain]
    | cons a as =>
      cases stk with
      | nil => simp [Chain] at h
      | cons s ss => simp only [List.drop_succ_cons]; exact ih h.2

/-! ## a fresh thread: no scopes -/

theorem newFactory_nodes : newFactory.arena = ⟨16, 2 ^ 15, [⟨4160, 64, [⟨0, 64⟩]⟩]⟩ := by decide

theorem rel_new : Rel newFactory [] [] := by
  refine ⟨?_, trivial, ?_⟩
  · rw [newFactory_nodes]; decide
  · rw [newFactory_nodes]
    refine ⟨rfl, rfl, by simp, ?_⟩
    intro n hn
    simp only [List.mem_singleton] at hn
    subst hn
    decide

/-! ## last scope: never garbage, always the innermost live scope -/

theorem rel_last (f : Factory) (as : List Addr) (stk : Stack) (h : Rel f as stk) :
    lastScopeOf f = some ((as ++ [selfAddr]).head (by simp)) := by
  obtain ⟨rest, h1, h2⟩ := lastScopeOf_eq f h.nodes
  cases hl : lastScopeOf f with
  | none => simp [hl] at h2
  | some a =>
    rw [hl] at h1
    simp only [] at h1
    rw [h.addrs] at h1
    congr 1
    cases as with
    | nil => simp at h1 ⊢; exact h1.1.symm
    | cons x xs => simp at h1 ⊢; exact h1.1.symm

/-- the factory record is never one of the live scope records -/
theorem rel_self_not_mem (f : Factory) (as : List Addr) (stk : Stack) (h : Rel f as stk) :
    ∀ a ∈ as, a ≠ selfAddr := by
  intro a ha e
  obtain ⟨i, hi, hget⟩ := List.getElem_of_mem ha
  have hlen : (recAddrs f.arena.nodes).length = as.length + 1 := by rw [h.addrs]; simp
  have h1 : (recAddrs f.arena.nodes)[i]'(by omega) = a := by
    simp only [h.addrs]; rw [List.getElem_append_left hi]; exact hget
  have h2 : (recAddrs f.arena.nodes)[as.length]'(by omega) = selfAddr := by
    simp only [h.addrs]; rw [List.getElem_append_right (Nat.le_refl _)]; simp
  exact recAddrs_distinct f.arena.nodes i as.length (by omega) (by omega) hi (by rw [h1, h2, e])

/-- `gp_last_scope`: the fallback exactly when there is no live scope, otherwise the innermost
live scope (whose record is intact) — never a garbage pointer -/
theorem last_scope_spec (f : Factory) (as : List Addr) (stk : Stack) (h : Rel f as stk) :
    lastScope f = some as.head? := by
  unfold lastScope
  rw [rel_last f as stk h]
  cases as with
  | nil => simp
  | cons a rest =>
    have := rel_self_not_mem f _ stk h a List.mem_cons_self
    simp [this]

end Gpc.Scope

namespace Gpc.Scope
open Gpc.Arena

/-! ## begin -/

theorem rel_begin (f : Factory) (as : List Addr) (stk : Stack) (h : Rel f as stk) :
    ∃ f' p, begin f = some (f', p) ∧ Rel f' (p :: as) (specBegin stk f.nextId) ∧ f'.nextId = f.nextId + 1 := by
  unfold begin
  rw [rel_last f as stk h]
  simp only []
  obtain ⟨hg1, hg2⟩ := alloc_geometry f.arena h.nodes
  generalize hal : alloc g f.arena recSize = al at hg1 hg2
  obtain ⟨a', p⟩ := al
  simp only [] at hg1 hg2
  refine ⟨_, p, rfl, ⟨?_, ?_, hg2⟩, rfl⟩
  · simp only []; rw [hg1, h.addrs]; rfl
  · -- the new record heads the chain; older records are untouched because `p` is fresh
    have hfresh : ∀ a ∈ as, a ≠ p := by
      intro a ha e
      obtain ⟨i, hi, hget⟩ := List.getElem_of_mem ha
      have hlen : (recAddrs a'.nodes).length = as.length + 2 := by rw [hg1, h.addrs]; simp
      have h0 : (recAddrs a'.nodes)[0]'(by omega) = p := by simp only [hg1]; rfl
      have h1 : (recAddrs a'.nodes)[i + 1]'(by omega) = a := by
        simp only [hg1, h.addrs, List.getElem_cons_succ]
        rw [List.getElem_append_left hi]; exact hget
      exact recAddrs_distinct a'.nodes 0 (i + 1) (by omega) (by omega) (by omega) (by rw [h0, h1, e])
    refine ⟨?_, h.chain.frame p _ hfresh⟩
    simp only [upd, if_true, specBegin]
    congr 2
    cases as with
    | nil => simp
    | cons x xs =>
      have := rel_self_not_mem f _ stk h x List.mem_cons_self
      simp [this]

/-! ## defer -/

theorem Chain.defer {mem : Addr → Option Rec} {as : List Addr} {stk : Stack} (h : Chain mem as stk)
    (i : Nat) (hi : i < as.length) (tag : Nat)
    (hd : ∀ j k (hj : j < as.length) (hk : k < as.length), j < k → as[j] ≠ as[k]) :
    ∃ r, mem (as[i]) = some r ∧
      Chain (upd mem (as[i]) { r with defers := r.defers ++ [tag] }) as (specDefer stk i tag) := by
  induction as generalizing stk i with
  | nil => simp at hi
  | cons a as ih =>
    cases stk with
    | nil => simp [Chain] at h
    | cons s ss =>
      cases i with
      | zero =>
        refine ⟨_, h.1, ?_, ?_⟩
        · simp [upd, specDefer]
        · have hne : ∀ x ∈ as, x ≠ a := by
            intro x hx e
            obtain ⟨k, hk, hget⟩ := List.getElem_of_mem hx
            exact hd 0 (k + 1) (by simp) (by simp; omega) (by omega) (by simp [hget, e])
          simp only [List.getElem_cons_zero]
          exact h.2.frame a _ hne
      | succ j =>
        have hj : j < as.length := by simpa using hi
        obtain ⟨r, hr, hc⟩ := ih h.2 j hj (fun x y hx hy hxy => by
          have := hd (x + 1) (y + 1) (by simp; omega) (by simp; omega) (by omega)
          simpa using this)
        refine ⟨r, by simpa using hr, ?_, ?_⟩
        · have hne : a ≠ as[j] := by
            have := hd 0 (j + 1) (by simp) (by simp; omega) (by omega)
            simpa using this
          simp only [List.getElem_cons_succ, upd, hne, if_false]
          exact h.1
        · simpa [specDefer] using hc

theorem rel_distinct (f : Factory) (as : List Addr) (stk : Stack) (h : Rel f as stk) :
    ∀ j k (hj : j < as.length) (hk : k < as.length), j < k → as[j] ≠ as[k] := by
  intro j k hj hk hjk
  have hlen : (recAddrs f.arena.nodes).length = as.length + 1 := by rw [h.addrs]; simp
  have h1 : (recAddrs f.arena.nodes)[j]'(by omega) = as[j] := by
    simp only [h.addrs]; rw [List.getElem_append_left hj]
  have h2 : (recAddrs f.arena.nodes)[k]'(by omega) = as[k] := by
    simp only [h.addrs]; rw [List.getElem_append_left hk]
  have := recAddrs_distinct f.arena.nodes j k (by omega) (by omega) hjk
  rwa [h1, h2] at this

/-- deferring on the live scope at depth `i` appends the call to that scope only -/
theorem rel_defer (f : Factory) (as : List Addr) (stk : Stack) (h : Rel f as stk) (i : Nat)
    (hi : i < as.length) (tag : Nat) :
    ∃ f', defer f (as[i]) tag = some f' ∧ Rel f' as (specDefer stk i tag) := by
  obtain ⟨r, hr, hc⟩ := h.chain.defer i hi tag (rel_distinct f as stk h)
  unfold Gpc.Scope.defer
  rw [hr]
  exact ⟨_, rfl, ⟨h.addrs, hc, h.nodes⟩⟩

/-! ## end -/

theorem endScopes_spec (mem : Addr → Option Rec) (as : List Addr) (stk : Stack) (h : Chain mem as stk)
    (i : Nat) (hi : i < as.length) (fuel : Nat) (hf : i < fuel)
    (hd : ∀ j k (hj : j < as.length) (hk : k < as.length), j < k → as[j] ≠ as[k]) :
    endScopes mem fuel (as[0]'(by omega)) (some (as[i])) = some (specEvents (stk.take (i + 1))) := by
  induction i generalizing as stk fuel with
  | zero =>
    cases as with
    | nil => simp at hi
    | cons a as =>
      cases stk with
      | nil => simp [Chain] at h
      | cons s ss =>
        cases fuel with
        | zero => omega
        | succ fu =>
          simp only [endScopes, List.getElem_cons_zero, h.1]
          cases as.head? <;> simp [specEvents]
  | succ i ih =>
    cases as with
    | nil => simp at hi
    | cons a as =>
      cases stk with
      | nil => simp [Chain] at h
      | cons s ss =>
        cases fuel with
        | zero => omega
        | succ fu =>
          have hi' : i < as.length := by simpa using hi
          cases as with
          | nil => simp at hi'
          | cons b bs =>
            have hne : a ≠ (b :: bs)[i] := by
              have := hd 0 (i + 1) (by simp) (by simp; omega) (by omega)
              simpa using this
            simp only [endScopes, List.getElem_cons_zero, List.getElem_cons_succ, h.1, List.head?_cons]
            have hne' : ¬ some a = some ((b :: bs)[i]) := by simpa using hne
            simp only [ne_eq, hne', not_false_eq_true, if_true]
            have := ih (b :: bs) ss h.2 hi' fu (by omega) (fun x y hx hy hxy => by
              have := hd (x + 1) (y + 1) (by simp; omega) (by simp; omega) (by omega)
              simpa using this)
            simp only [List.getElem_cons_zero] at this
            rw [this]
            simp [specEvents]

/-- ending the live scope at depth `i`: exactly the scopes `0..i` (it and every scope begun after
it) are ended, innermost first, each one's deferred calls run once in LIFO order before its memory
is released; the older scopes stay, intact, and the innermost of them is the last scope again -/
theorem rel_end (f : Factory) (as : List Addr) (stk : Stack) (h : Rel f as stk) (i : Nat)
    (hi : i < as.length) (fuel : Nat) (hf : i < fuel) :
    ∃ f', endScope f (as[i]) fuel = some (f', (specEnd stk i).2) ∧
      Rel f' (as.drop (i + 1)) (specEnd stk i).1 ∧ f'.nextId = f.nextId := by
  unfold endScope
  rw [rel_last f as stk h]
  have hhead : (as ++ [selfAddr]).head (by simp) = as[0]'(by omega) := by
    cases as with
    | nil => simp at hi
    | cons a rest => simp
  simp only [hhead]
  rw [endScopes_spec f.mem as stk h.chain i hi fuel hf (rel_distinct f as stk h)]
  simp only []
  have hlen : (recAddrs f.arena.nodes).length = as.length + 1 := by rw [h.addrs]; simp
  have hidx : (recAddrs f.arena.nodes)[i]'(by omega) = as[i] := by
    simp only [h.addrs]; rw [List.getElem_append_left hi]
  obtain ⟨a', h1, h2, h3, h4, h5, h6⟩ := rewind_geometry f.arena f.arena.nodes
    (fun n hn => h.nodes.nodes n hn) i (by omega)
  rw [hidx] at h1
  have harena : ({ f.arena with nodes := f.arena.nodes } : Arena) = f.arena := rfl
  rw [harena] at h1
  rw [h1]
  refine ⟨_, rfl, ⟨?_, ?_, ⟨?_, ?_, h5, h6⟩⟩, rfl⟩
  · simp only []; rw [h4, h.addrs]
    rw [List.drop_append_of_le_length (by omega)]
  · exact h.chain.drop (i + 1)
  · simp only []; rw [h2]; exact h.nodes.align
  · simp only []; rw [h3]; exact h.nodes.maxSize

/-! ## thread exit -/

theorem endScopes_all (mem : Addr → Option Rec) (as : List Addr) (stk : Stack) (h : Chain mem as stk)
    (hne : as ≠ []) (fuel : Nat) (hf : as.length ≤ fuel) :
    endScopes mem fuel (as.head hne) none = some (specEvents stk) := by
  induction as generalizing stk fuel with
  | nil => exact absurd rfl hne
  | cons a as ih =>
    cases stk with
    | nil => simp [Chain] at h
    | cons s ss =>
      cases fuel with
      | zero => simp at hf
      | succ fu =>
        simp only [endScopes, List.head_cons, h.1]
        cases as with
        | nil =>
          have : ss = [] := by cases ss <;> simp_all [Chain]
          subst this
          simp [specEvents]
        | cons b bs =>
          simp only [List.head?_cons, ne_eq, reduceCtorEq, not_false_eq_true, if_true]
          have := ih ss h.2 (by simp) fu (by simpa using hf)
          simp only [List.head_cons] at this
          rw [this]
          simp [specEvents]

/-- a thread that exits with live scopes ends all of them, innermost first, each exactly once -/
theorem rel_thread_exit (f : Factory) (as : List Addr) (stk : Stack) (h : Rel f as stk) (fuel : Nat)
    (hf : as.length ≤ fuel) : threadExit f fuel = some (specEvents stk) := by
  unfold threadExit
  rw [rel_last f as stk h]
  cases as with
  | nil =>
    cases stk with
    | nil => simp [specEvents]
    | cons s ss => exact absurd h.chain (by simp [Chain])
  | cons a rest =>
    have hns := rel_self_not_mem f _ stk h a List.mem_cons_self
    simp only [List.cons_append, List.head_cons, hns, if_false]
    have := endScopes_all f.mem (a :: rest) stk h.chain (by simp) fuel hf
    simpa using this

/-- every deferred call of the ended scopes appears exactly once in the events (multiset view) -/
theorem specEvents_calls (popped : List AScope) :
    (specEvents popped).filterMap (fun e => match e with | Ev.call t => some t | _ => none)
      = popped.flatMap (fun s => s.defers.reverse) := by
  induction popped with
  | nil => simp [specEvents]
  | cons s ss ih =>
    simp only [specEvents, List.flatMap_cons, List.filterMap_append] at ih ⊢
    rw [ih]
    simp [List.filterMap_map, Function.comp_def]

/-! ## non-vacuity: 70 nested scopes (past the first factory node), end back to depth 3 -/
example : (lastScopeOf newFactory) = some selfAddr := by decide

end Gpc.Scope
