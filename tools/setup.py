#!/usr/bin/env python3
"""offline setup: build the Lean library (all models, proofs, property theorems) and the model driver"""
import os
import subprocess
import sys
ROOT = os.path.dirname(os.path.dirname(os.path.abspath(__file__)))
r = subprocess.run(["lake", "build", "Gpc", "gpcmodel"], cwd=os.path.join(ROOT, "lean"))
sys.exit(r.returncode)
