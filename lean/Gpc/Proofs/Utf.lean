import Gpc.Model.Utf
import Gpc.Proofs.Utf8
/-! Bit-field lemmas for C07: masks/shifts of the UTF-8 codec as div/mod arithmetic -/
set_option maxRecDepth 8192

namespace Gpc.Utf
open Gpc.Utf8

theorem and_concat_pow (n a b m k : Nat) (hb : b < 2 ^ n) (hk : k < 2 ^ n) :
    (a * 2 ^ n + b) &&& (m * 2 ^ n + k) = (a &&& m) * 2 ^ n + (b &&& k) := by
  have hp : 0 < 2 ^ n := Nat.two_pow_pos n
  have hbk : b &&& k < 2 ^ n := Nat.and_lt_two_pow _ hk
  have d1 : (a * 2 ^ n + b) / 2 ^ n = a := by
    rw [Nat.add_comm, Nat.add_mul_div_right _ _ hp, Nat.div_eq_of_lt hb, Nat.zero_add]
  have d2 : (m * 2 ^ n + k) / 2 ^ n = m := by
    rw [Nat.add_comm, Nat.add_mul_div_right _ _ hp, Nat.div_eq_of_lt hk, Nat.zero_add]
  have m1 : (a * 2 ^ n + b) % 2 ^ n = b := by
    rw [Nat.add_comm, Nat.add_mul_mod_self_right, Nat.mod_eq_of_lt hb]
  have m2 : (m * 2 ^ n + k) % 2 ^ n = k := by
    rw [Nat.add_comm, Nat.add_mul_mod_self_right, Nat.mod_eq_of_lt hk]
  have hd : ((a * 2 ^ n + b) &&& (m * 2 ^ n + k)) / 2 ^ n = a &&& m := by
    rw [Nat.and_div_two_pow, d1, d2]
  have hm : ((a * 2 ^ n + b) &&& (m * 2 ^ n + k)) % 2 ^ n = b &&& k := by
    rw [Nat.and_mod_two_pow, m1, m2]
  have := Nat.div_add_mod ((a * 2 ^ n + b) &&& (m * 2 ^ n + k)) (2 ^ n)
  rw [hd, hm, Nat.mul_comm] at this
  exact this.symm

/-- or of a shifted high part with a small low part is addition -/
theorem or_fields (hi lo k : Nat) (h : lo < 2 ^ k) : (hi * 2 ^ k) ||| lo = hi * 2 ^ k + lo := by
  rw [← Nat.shiftLeft_eq, Nat.shiftLeft_add_eq_or_of_lt h]

/-- a 6-bit field: `(c & (0x3F << k)) >> k = (c / 2^k) % 64` -/
theorem field6 (c k : Nat) : (c &&& (0x3F <<< k)) >>> k = (c / 2 ^ k) % 64 := by
  rw [Nat.shiftRight_and_distrib, Nat.shiftLeft_shiftRight, Nat.shiftRight_eq_div_pow]
  exact Nat.and_two_pow_sub_one_eq_mod _ 6

theorem field3 (c k : Nat) : (c &&& (0x7 <<< k)) >>> k = (c / 2 ^ k) % 8 := by
  rw [Nat.shiftRight_and_distrib, Nat.shiftLeft_shiftRight, Nat.shiftRight_eq_div_pow]
  exact Nat.and_two_pow_sub_one_eq_mod _ 3

theorem field4 (c k : Nat) : (c &&& (0xF <<< k)) >>> k = (c / 2 ^ k) % 16 := by
  rw [Nat.shiftRight_and_distrib, Nat.shiftLeft_shiftRight, Nat.shiftRight_eq_div_pow]
  exact Nat.and_two_pow_sub_one_eq_mod _ 4

theorem or80 (v : Nat) (h : v < 64) : v ||| 0x80 = 0x80 + v := by
  have := or_fields 2 v 6 (by omega)
  rw [Nat.or_comm]; simpa using this
theorem orC0 (v : Nat) (h : v < 64) : v ||| 0xC0 = 0xC0 + v := by
  have := or_fields 3 v 6 (by omega)
  rw [Nat.or_comm]; simpa using this
theorem orE0 (v : Nat) (h : v < 32) : v ||| 0xE0 = 0xE0 + v := by
  have := or_fields 7 v 5 (by omega)
  rw [Nat.or_comm]; simpa using this
theorem orF0 (v : Nat) (h : v < 16) : v ||| 0xF0 = 0xF0 + v := by
  have := or_fields 15 v 4 (by omega)
  rw [Nat.or_comm]; simpa using this

/-- the bytes `gp_utf8_decode` writes, as arithmetic -/
theorem encNat_eq (c : Nat) (hc : c < 0x200000) : encNat c =
    if c < 0x80 then [c]
    else if c < 0x800 then [0xC0 + c / 64, 0x80 + c % 64]
    else if c < 0x10000 then [0xE0 + c / 4096, 0x80 + c / 64 % 64, 0x80 + c % 64]
    else [0xF0 + c / 262144, 0x80 + c / 4096 % 64, 0x80 + c / 64 % 64, 0x80 + c % 64] := by
  have f0 : (c &&& 0x3F) >>> 0 = c % 64 := by have := field6 c 0; simpa using this
  have f6 : (c &&& 0xFC0) >>> 6 = c / 64 % 64 := by have := field6 c 6; simpa using this
  have f12 : (c &&& 0x3F000) >>> 12 = c / 4096 % 64 := by have := field6 c 12; simpa using this
  have f18 : (c &&& 0x1C0000) >>> 18 = c / 262144 % 8 := by have := field3 c 18; simpa using this
  unfold encNat
  rw [f0, f6, f12, f18]
  by_cases h1 : c < 0x80
  · have : ¬ c > 0x7F := by omega
    simp [this, h1]
  · have h1' : c > 0x7F := by omega
    simp only [h1', if_true, h1, if_false]
    by_cases h2 : c < 0x800
    · simp only [h2, if_true]
      have : c / 64 % 64 = c / 64 := by omega
      rw [this, orC0 _ (by omega), or80 _ (by omega)]
    · simp only [h2, if_false]
      by_cases h3 : c < 0x10000
      · simp only [h3, if_true]
        have : c / 4096 % 64 = c / 4096 := by omega
        rw [this, orE0 _ (by omega), or80 _ (by omega), or80 _ (by omega)]
      · simp only [h3, if_false]
        have : c / 262144 % 8 = c / 262144 := by omega
        rw [this, orF0 _ (by omega), or80 _ (by omega), or80 _ (by omega), or80 _ (by omega)]

theorem b63 : ∀ b, b < 256 → b &&& 0x3F = b % 64 := by decide +kernel
theorem b15 : ∀ b, b < 256 → b &&& 0xF = b % 16 := by decide +kernel
theorem b7 : ∀ b, b < 256 → b &&& 0x7 = b % 8 := by decide +kernel

theorem and_concat16 (a b m k : Nat) (hb : b < 65536) (hk : k < 65536) :
    (a * 65536 + b) &&& (m * 65536 + k) = (a &&& m) * 65536 + (b &&& k) := by
  have := and_concat_pow 16 a b m k (by simpa using hb) (by simpa using hk)
  simpa using this
theorem and_concat24 (a b m k : Nat) (hb : b < 16777216) (hk : k < 16777216) :
    (a * 16777216 + b) &&& (m * 16777216 + k) = (a &&& m) * 16777216 + (b &&& k) := by
  have := and_concat_pow 24 a b m k (by simpa using hb) (by simpa using hk)
  simpa using this
theorem or_fields6 (hi lo : Nat) (h : lo < 64) : (hi * 64) ||| lo = hi * 64 + lo := by
  have := or_fields hi lo 6 (by simpa using h); simpa using this
theorem or_fields12 (hi lo : Nat) (h : lo < 4096) : (hi * 4096) ||| lo = hi * 4096 + lo := by
  have := or_fields hi lo 12 (by simpa using h); simpa using this
theorem or_fields18 (hi lo : Nat) (h : lo < 262144) : (hi * 262144) ||| lo = hi * 262144 + lo := by
  have := or_fields hi lo 18 (by simpa using h); simpa using this
theorem shr2 (x : Nat) : (x * 256) >>> 2 = x * 64 := by
  rw [Nat.shiftRight_eq_div_pow]; show x * 256 / 4 = x * 64; omega
theorem shr4 (x : Nat) : (x * 65536) >>> 4 = x * 4096 := by
  rw [Nat.shiftRight_eq_div_pow]; show x * 65536 / 16 = x * 4096; omega
theorem shr6 (x : Nat) : (x * 16777216) >>> 6 = x * 262144 := by
  rw [Nat.shiftRight_eq_div_pow]; show x * 16777216 / 64 = x * 262144; omega

theorem unpack2 (b0 b1 : Nat) (h0 : 0xC0 ≤ b0) (h0' : b0 < 256) (h1 : b1 < 256) :
    unpackCp (b0 * 256 + b1) = (b0 % 64) * 64 + b1 % 64 := by
  have hx : b0 * 256 + b1 < 65536 := by omega
  have hgt : b0 * 256 + b1 > 0x7F := by omega
  have hle : b0 * 256 + b1 ≤ 0x00EFBFBF := by omega
  have hm : b1 % 64 < 64 := Nat.mod_lt _ (by decide)
  have t1 : (b0 * 256 + b1) &&& 0x07000000 = 0 := by
    have := and_concat16 0 (b0 * 256 + b1) 0x700 0 hx (by decide); simpa using this
  have t2 : (b0 * 256 + b1) &&& 0x000F0000 = 0 := by
    have := and_concat16 0 (b0 * 256 + b1) 0xF 0 hx (by decide); simpa using this
  have t3 : (b0 * 256 + b1) &&& 0x3F00 = (b0 % 64) * 256 := by
    have := and_concat b0 b1 0x3F 0 h1 (by decide)
    simp only [Nat.and_zero, Nat.add_zero] at this
    rw [b63 b0 h0'] at this
    simpa using this
  have t4 : (b0 * 256 + b1) &&& 0x3F = b1 % 64 := by
    have := and_concat b0 b1 0 0x3F h1 (by decide)
    simp only [Nat.and_zero, Nat.zero_mul, Nat.zero_add] at this
    rw [b63 b1 h1] at this
    simpa using this
  unfold unpackCp
  simp only [hgt, if_true, hle, t1, t2, t3, t4, Nat.zero_shiftRight, Nat.zero_or]
  rw [shr2, or_fields6 _ _ hm]

theorem unpack3 (b0 b1 b2 : Nat) (h0 : 0xE0 ≤ b0) (h0' : b0 ≤ 0xEF) (h1 : b1 ≤ 0xBF) (h2 : b2 ≤ 0xBF) :
    unpackCp ((b0 * 256 + b1) * 256 + b2) = (b0 % 16) * 4096 + (b1 % 64) * 64 + b2 % 64 := by
  have hx : (b0 * 256 + b1) * 256 + b2 < 16777216 := by omega
  have e16 : (b0 * 256 + b1) * 256 + b2 = b0 * 65536 + (b1 * 256 + b2) := by omega
  have hgt : (b0 * 256 + b1) * 256 + b2 > 0x7F := by omega
  have hle : (b0 * 256 + b1) * 256 + b2 ≤ 0x00EFBFBF := by omega
  have hlo16 : b1 * 256 + b2 < 65536 := by omega
  have hb0 : b0 < 256 := by omega
  have hb1 : b1 < 256 := by omega
  have hb2 : b2 < 256 := by omega
  have hm2 : b2 % 64 < 64 := Nat.mod_lt _ (by decide)
  have hm12 : (b1 % 64) * 64 + b2 % 64 < 4096 := by omega
  have t1 : ((b0 * 256 + b1) * 256 + b2) &&& 0x07000000 = 0 := by
    have := and_concat24 0 ((b0 * 256 + b1) * 256 + b2) 0x7 0 hx (by decide); simpa using this
  have t2 : ((b0 * 256 + b1) * 256 + b2) &&& 0x000F0000 = (b0 % 16) * 65536 := by
    have := and_concat16 b0 (b1 * 256 + b2) 0xF 0 hlo16 (by decide)
    simp only [Nat.and_zero, Nat.add_zero] at this
    rw [b15 b0 hb0] at this
    rw [e16]; simpa using this
  have t3 : ((b0 * 256 + b1) * 256 + b2) &&& 0x3F00 = (b1 % 64) * 256 := by
    have e : (0x3F00 : Nat) = (0 * 256 + 0x3F) * 256 + 0 := by decide
    rw [e, and_concat _ b2 _ 0 hb2 (by decide), and_concat b0 b1 0 0x3F hb1 (by decide)]
    simp only [Nat.and_zero, Nat.zero_mul, Nat.zero_add, Nat.add_zero]
    rw [b63 b1 hb1]
  have t4 : ((b0 * 256 + b1) * 256 + b2) &&& 0x3F = b2 % 64 := by
    have := and_concat (b0 * 256 + b1) b2 0 0x3F hb2 (by decide)
    simp only [Nat.and_zero, Nat.zero_mul, Nat.zero_add] at this
    rw [b63 b2 hb2] at this
    simpa using this
  unfold unpackCp
  simp only [hgt, if_true, hle, t1, t2, t3, t4, Nat.zero_shiftRight, Nat.zero_or]
  rw [shr4, shr2, Nat.or_assoc, or_fields6 _ _ hm2, or_fields12 _ _ hm12, Nat.add_assoc]

theorem unpack4 (b0 b1 b2 b3 : Nat) (h0 : 0xF0 ≤ b0) (h0' : b0 ≤ 0xF7) (h1 : b1 < 256) (h2 : b2 < 256) (h3 : b3 < 256) :
    unpackCp (((b0 * 256 + b1) * 256 + b2) * 256 + b3)
      = (b0 % 8) * 262144 + (b1 % 64) * 4096 + (b2 % 64) * 64 + b3 % 64 := by
  have e24 : ((b0 * 256 + b1) * 256 + b2) * 256 + b3 = b0 * 16777216 + ((b1 * 256 + b2) * 256 + b3) := by omega
  have e16 : ((b0 * 256 + b1) * 256 + b2) * 256 + b3 = (b0 * 256 + b1) * 65536 + (b2 * 256 + b3) := by
    clear e24; generalize b0 * 256 + b1 = x; omega
  have hlo24 : (b1 * 256 + b2) * 256 + b3 < 16777216 := by omega
  have hlo16 : b2 * 256 + b3 < 65536 := by omega
  have hb0 : b0 < 256 := by omega
  have hgt : ((b0 * 256 + b1) * 256 + b2) * 256 + b3 > 0x7F := by omega
  have hle : ¬ ((b0 * 256 + b1) * 256 + b2) * 256 + b3 ≤ 0x00EFBFBF := by omega
  have hm3 : b3 % 64 < 64 := Nat.mod_lt _ (by decide)
  have hm23 : (b2 % 64) * 64 + b3 % 64 < 4096 := by omega
  have hm123 : (b1 % 64) * 4096 + ((b2 % 64) * 64 + b3 % 64) < 262144 := by omega
  have t1 : (((b0 * 256 + b1) * 256 + b2) * 256 + b3) &&& 0x07000000 = (b0 % 8) * 16777216 := by
    have := and_concat24 b0 ((b1 * 256 + b2) * 256 + b3) 0x7 0 hlo24 (by decide)
    simp only [Nat.and_zero, Nat.add_zero] at this
    rw [b7 b0 hb0] at this
    rw [e24]; simpa using this
  have t2 : (((b0 * 256 + b1) * 256 + b2) * 256 + b3) &&& 0x003F0000 = (b1 % 64) * 65536 := by
    have e2 : (0x003F0000 : Nat) = (0 * 256 + 0x3F) * 65536 + 0 := by decide
    rw [e16, e2, and_concat16 _ _ _ 0 hlo16 (by decide), and_concat b0 b1 0 0x3F h1 (by decide)]
    simp only [Nat.and_zero, Nat.zero_mul, Nat.zero_add, Nat.add_zero]
    rw [b63 b1 h1]
  have t3 : (((b0 * 256 + b1) * 256 + b2) * 256 + b3) &&& 0x3F00 = (b2 % 64) * 256 := by
    have e : (0x3F00 : Nat) = (0 * 256 + 0x3F) * 256 + 0 := by decide
    rw [e, and_concat _ b3 _ 0 h3 (by decide), and_concat _ b2 0 0x3F h2 (by decide)]
    simp only [Nat.and_zero, Nat.zero_mul, Nat.zero_add, Nat.add_zero]
    rw [b63 b2 h2]
  have t4 : (((b0 * 256 + b1) * 256 + b2) * 256 + b3) &&& 0x3F = b3 % 64 := by
    have := and_concat ((b0 * 256 + b1) * 256 + b2) b3 0 0x3F h3 (by decide)
    simp only [Nat.and_zero, Nat.zero_mul, Nat.zero_add] at this
    rw [b63 b3 h3] at this
    simpa using this
  unfold unpackCp
  simp only [hgt, if_true, hle, if_false, t1, t2, t3, t4]
  rw [shr6, shr4, shr2, Nat.or_assoc, Nat.or_assoc, or_fields6 _ _ hm3, or_fields12 _ _ hm23,
      or_fields18 _ _ hm123, Nat.add_assoc, Nat.add_assoc]

end Gpc.Utf
