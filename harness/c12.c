/* C12 / C13 / C15 driver: full case mapping, comparison, sorting and their use of the scratch arena.
 * Every line runs in a fresh thread, so the thread's scratch arena starts in its initial state (256 bytes,
 * growth 2.0, no limit) and the heap traffic of a call is deterministic.
 *
 *   cf up|lo|cap <loc> <cap> <hex>      gp_str_to_upper_full / to_lower_full / capitalize on a heap string of the
 *                                       given initial capacity
 *   cf sup|slo|sti <cap> <hex>          gp_str_to_upper / to_lower / to_title
 *   cf cmp <flags> <loc> <hex1> <hex2>  gp_str_compare(s1 as GPString, s2 as exact-size plain buffer)
 *   cf sort <flags> <loc> <hex>...      gp_str_sort of an array of heap strings
 *   cf rep <n> <one of the above>       the same call n times (fresh copy of the input each time)
 *   cf [rep <n>] pre <bytes> <call>     the caller first takes <bytes> from the scratch arena itself
 *   cf stale <hex> up|lo|cap ..         <hex> is written behind the end of the string, inside its capacity
 * loc: "-" = "", otherwise the locale code.   flags: letters f (fold) c (collate) r (reverse), "-" = none.
 *
 * output:  <result> d=<scratch position changed? 0/1> m:<sizes requested from the heap by the call(s)> f:<frees>
 * result:  hex of the string | sign of the comparison | the sorted strings "hex,hex,.." plus "perm-bad" if the
 *          result is not a permutation of the same string objects
 */
#include <gpc/string.h>
#include <gpc/unicode.h>
#include <gpc/array.h>
#include <gpc/memory.h>
#include <pthread.h>
#include "proto.h"
#include "track_heap.h"

static char** T; static int NT;
/* "stale <hex>": bytes left behind the end of the string (inside its capacity), as gp_str_slice or a shorter
 * gp_str_copy into a used buffer leave them; they are not part of the string */
static uint8_t* stale; static size_t stale_len;
static void put_stale(GPString* s)
{
    if (!stale_len) return;
    size_t l = gp_str_length(*s);
    gp_str_reserve(s, l + stale_len + 1);
    memcpy((char*)*s + l, stale, stale_len);
}

/* the harness' own strings and arrays come from this allocator, so that gp_heap's log shows only what the
 * library itself requests (scratch arena nodes); its request sizes are logged separately */
static size_t sa_log[4096], sa_n;
static void* sa_alloc(const GPAllocator* a, size_t n) { (void)a; if (sa_n < 4096) sa_log[sa_n++] = n; return malloc(n ? n : 1); }
static void sa_dealloc(const GPAllocator* a, void* p) { (void)a; free(p); }
static const GPAllocator str_alloc = { sa_alloc, sa_dealloc };
#define SA (&str_alloc)

static const char* loc(const char* s) { return !strcmp(s, "null") ? NULL : strcmp(s, "-") ? s : ""; }   /* "null": documented as the global locale */
static int flags_of(const char* s)
{
    int f = 0;
    if (strchr(s, 'f')) f |= GP_CASE_FOLD;
    if (strchr(s, 'c')) f |= GP_COLLATE;
    if (strchr(s, 'r')) f |= GP_REVERSE;
    return f;
}

/* runs one call; returns 0 on bad-op. Prints the result part. */
static int one_call(char** t, int n, int print)
{
    if (n >= 4 && (!strcmp(t[0], "up") || !strcmp(t[0], "lo") || !strcmp(t[0], "cap"))) {
        size_t cap = strtoull(t[2], NULL, 10), l; uint8_t* b = vp_hex(t[3], &l);
        GPString s = gp_str_new(SA, cap, ""); gp_str_copy(&s, b, l); free(b);
        put_stale(&s);
        sa_n = 0;                                            /* string requests made by the call itself */
        if (t[0][0] == 'u') gp_str_to_upper_full(&s, loc(t[1]));
        else if (t[0][0] == 'l') gp_str_to_lower_full(&s, loc(t[1]));
        else gp_str_capitalize(&s, loc(t[1]));
        size_t sa_call = sa_n;                               /* gp_cstr / delete below do not allocate */
        (void)sa_call;
        if (print) vp_puthex(gp_cstr(s), gp_str_length(s));
        gp_str_delete(s);
        return 1;
    }
    if (n >= 3 && (!strcmp(t[0], "sup") || !strcmp(t[0], "slo") || !strcmp(t[0], "sti"))) {
        size_t cap = strtoull(t[1], NULL, 10), l; uint8_t* b = vp_hex(t[2], &l);
        GPString s = gp_str_new(SA, cap, ""); gp_str_copy(&s, b, l); free(b);
        sa_n = 0;
        void gp_str_to_title(GPString*);
        if (t[0][1] == 'u') gp_str_to_upper(&s); else if (t[0][1] == 'l') gp_str_to_lower(&s); else gp_str_to_title(&s);
        if (print) vp_puthex(gp_cstr(s), gp_str_length(s));
        gp_str_delete(s);
        return 1;
    }
    if (n >= 5 && !strcmp(t[0], "cmp")) {
        size_t l1, l2; uint8_t* b1 = vp_hex(t[3], &l1); uint8_t* b2 = vp_hex(t[4], &l2);
        GPString s1 = gp_str_new(SA, l1, ""); gp_str_copy(&s1, b1, l1); free(b1);
        sa_n = 0;
        int r = gp_str_compare(s1, b2, l2, flags_of(t[1]), loc(t[2]));
        if (print) printf("%d", (r > 0) - (r < 0));
        gp_str_delete(s1); free(b2);
        return 1;
    }
    if (n >= 3 && !strcmp(t[0], "sort")) {
        int cnt = n - 3;
        GPArray(GPString) arr = gp_arr_new(SA, sizeof(GPString), cnt);
        GPString* orig = malloc(sizeof(GPString) * (cnt ? cnt : 1));
        for (int i = 0; i < cnt; i++) {
            size_t l; uint8_t* b = vp_hex(t[3 + i], &l);
            GPString s = gp_str_new(SA, l, ""); gp_str_copy(&s, b, l); free(b);
            arr[i] = s; orig[i] = s;
        }
        ((GPArrayHeader*)arr - 1)->length = cnt;
        sa_n = 0;
        gp_str_sort(&arr, flags_of(t[1]), loc(t[2]));
        int bad = 0;
        for (int i = 0; i < cnt; i++) {          /* permutation of the same objects */
            int found = 0;
            for (int j = 0; j < cnt; j++) if (orig[j] == arr[i]) { orig[j] = NULL; found = 1; break; }
            if (!found) bad = 1;
        }
        if (print) {
            if (cnt == 0) fputs("-", stdout);
            for (int i = 0; i < cnt; i++) { if (i) putchar(','); if (!bad) vp_puthex(arr[i], gp_str_length(arr[i])); else fputs("?", stdout); }
            if (bad) fputs(" perm-bad", stdout);
        }
        if (!bad) for (int i = 0; i < cnt; i++) gp_str_delete(arr[i]);
        free(orig); gp_arr_delete(arr);
        return 1;
    }
    return 0;
}

static void* run_line(void* arg)
{
    (void)arg;
    char** t = T + 1; int n = NT - 1;
    unsigned long reps = 1;
    if (n >= 2 && !strcmp(t[0], "rep")) { reps = strtoul(t[1], NULL, 10); t += 2; n -= 2; }
    /* "pre <bytes>": the caller holds a scratch allocation of its own when the call is made (the scratch position
     * is then somewhere inside, or exactly at the end of, a node) */
    stale_len = 0;
    if (n >= 2 && !strcmp(t[0], "stale")) { stale = vp_hex(t[1], &stale_len); t += 2; n -= 2; }
    if (n >= 2 && !strcmp(t[0], "pre")) { (void)gp_mem_alloc((GPAllocator*)gp_scratch_arena(), strtoull(t[1], NULL, 10)); t += 2; n -= 2; }
    void* before = gp_mem_alloc((GPAllocator*)gp_scratch_arena(), 0);   /* creates the arena; position at entry */
    size_t mark = th_count, frees0 = th_frees;
    int ok = 1;
    for (unsigned long i = 0; i < reps && ok; i++) ok = one_call(t, n, i + 1 == reps);
    if (!ok) { puts("bad-op"); return NULL; }
    void* after = gp_mem_alloc((GPAllocator*)gp_scratch_arena(), 0);
    /* m: sizes the library requested from gp_heap during the call(s) (scratch arena nodes); f: nodes freed;
     * s: sizes requested from the string's allocator by the last call (growth of the result string) */
    printf(" d=%d m:", before != after);
    if (mark == th_count) putchar('-');
    for (size_t i = mark; i < th_count; i++) printf("%s%zu", i > mark ? "," : "", th_tab[i].n);
    printf(" f:%zu s:", th_frees - frees0);
    if (sa_n == 0) putchar('-');
    for (size_t i = 0; i < sa_n; i++) printf("%s%zu", i ? "," : "", sa_log[i]);
    puts("");
    return NULL;
}

int main(void)
{
    setvbuf(stdout, NULL, _IOLBF, 0);
    th_install();
    /* the process-wide locale table and the locales used below are created once, outside the accounting */
    { const char* ls[] = {"", "en", "tr", "az", "lt", "fi"}; for (int i = 0; i < 6; i++) (void)gp_locale(ls[i]); }
    while (vp_next()) {
        if (vp_ntok < 2 || strcmp(vp_tok[0], "cf") != 0) { puts("bad-op"); continue; }
        T = vp_tok; NT = vp_ntok;
        th_reset();
        pthread_t th;
        pthread_create(&th, NULL, run_line, NULL);
        pthread_join(th, NULL);
    }
    return 0;
}
