/* C06 driver: UTF-8 / ASCII validation, repair, code point count.
 * Buffers are malloc'ed so that they END exactly at the end of the allocation and start at the
 * requested address alignment (ASan reports any read past the last byte). */
#include <gpc/bytes.h>
#include <gpc/string.h>
#include <gpc/unicode.h>
#include <gpc/memory.h>
#include "proto.h"

bool gp_valid_codepoint(uint32_t c);
bool gp_bytes_is_valid_utf8(const void* str, size_t n, size_t* invalid_index);

/* exact-size buffer whose start address is ≡ a (mod 8); *base receives the pointer to free */
static uint8_t* aligned_buf(const uint8_t* src, size_t n, unsigned a, void** base)
{
    uint8_t* m = malloc(n + a + (n + a == 0));
    *base = m;
    if (n) memcpy(m + a, src, n);
    return m + a;
}

static char idxch(bool ok, size_t idx) { return ok ? 'V' : (char)('0' + idx); }

static void sweep(char kind, const uint8_t* p, size_t pl, int k, unsigned a)
{
    size_t total = k == 0 ? 1 : k == 1 ? 256 : 65536;
    size_t n = pl + (size_t)k;
    char* out = malloc(total + 1);
    for (size_t v = 0; v < total; v++) {
        void* base; uint8_t tmp[16];
        memcpy(tmp, p, pl);
        if (k == 1) tmp[pl] = (uint8_t)v;
        if (k == 2) { tmp[pl] = (uint8_t)(v >> 8); tmp[pl + 1] = (uint8_t)v; }
        uint8_t* b = aligned_buf(tmp, n, a, &base);
        size_t idx = 0;
        if (kind == 'v') { bool ok = gp_bytes_is_valid_utf8(b, n, &idx); out[v] = idxch(ok, idx); }
        else if (kind == 'a') { bool ok = gp_bytes_is_valid(b, n, &idx); out[v] = idxch(ok, idx); }
        else out[v] = (char)('0' + gp_bytes_codepoint_count(b, n));
        free(base);
    }
    out[total] = 0;
    puts(out);
    free(out);
}

int main(void)
{
    setvbuf(stdout, NULL, _IOFBF, 1 << 16);
    while (vp_next()) {
        if (vp_ntok < 2 || strcmp(vp_tok[0], "u8") != 0) { puts("bad-op"); fflush(stdout); continue; }
        char** t = vp_tok + 1; int n = vp_ntok - 1;
        if (!strcmp(t[0], "cplen") && n == 1) {
            for (int b = 0; b < 256; b++) { uint8_t c = (uint8_t)b; printf("%s%zu", b ? " " : "", gp_utf8_codepoint_length(&c, 0)); }
            puts("");
        } else if (!strcmp(t[0], "vcp") && n == 2) {
            printf("%d\n", gp_valid_codepoint((uint32_t)strtoull(t[1], NULL, 10)));
        } else if (!strcmp(t[0], "valid") && n == 2) {
            size_t len; uint8_t* b = vp_hex(t[1], &len);
            size_t idx = 0, idx2 = 0;
            bool ok = gp_bytes_is_valid_utf8(b, len, &idx);
            bool ok0 = gp_bytes_is_valid_utf8(b, len, NULL);
            GPString s = gp_str_new(gp_heap, len, ""); gp_str_copy(&s, b, len);
            bool ok2 = gp_str_is_valid(s, &idx2);
            gp_str_delete(s);
            if (ok) fputs("ok", stdout); else printf("%zu", idx);
            if (ok2 != ok || ok0 != ok || (!ok && idx2 != idx)) printf(" variants-disagree:%d/%d/%zu", ok0, ok2, idx2);
            puts(""); free(b);
        } else if (!strcmp(t[0], "ascii") && n == 3) {
            size_t len; uint8_t* src = vp_hex(t[1], &len); void* base;
            uint8_t* b = aligned_buf(src, len, (unsigned)atoi(t[2]), &base);
            size_t idx = 0;
            bool ok = gp_bytes_is_valid(b, len, &idx);
            bool ok0 = gp_bytes_is_valid(b, len, NULL);
            if (ok) fputs("ok", stdout); else printf("%zu", idx);
            if (ok0 != ok) fputs(" null-variant-disagrees", stdout);
            puts(""); free(base); free(src);
        } else if (!strcmp(t[0], "count") && n == 3) {
            size_t len; uint8_t* src = vp_hex(t[1], &len); void* base;
            uint8_t* b = aligned_buf(src, len, (unsigned)atoi(t[2]), &base);
            size_t c = gp_bytes_codepoint_count(b, len);
            GPString s = gp_str_new(gp_heap, len, ""); gp_str_copy(&s, src, len);
            size_t c2 = gp_str_codepoint_count(s);
            gp_str_delete(s);
            printf("%zu", c); if (c2 != c) printf(" str-variant:%zu", c2);
            puts(""); free(base); free(src);
        } else if (!strcmp(t[0], "tovalid") && n == 3) {
            size_t len, rl; uint8_t* src = vp_hex(t[1], &len); uint8_t* r = vp_hex(t[2], &rl);
            char* repl = malloc(rl + 1); memcpy(repl, r, rl); repl[rl] = 0;
            GPString s = gp_str_new(gp_heap, len, ""); gp_str_copy(&s, src, len);
            gp_str_to_valid(&s, repl);
            vp_puthex(s, gp_str_length(s)); puts("");
            gp_str_delete(s); free(repl); free(r); free(src);
        } else if (!strcmp(t[0], "btovalid") && n == 3) {
            size_t len, rl; uint8_t* src = vp_hex(t[1], &len); uint8_t* r = vp_hex(t[2], &rl);
            char* repl = malloc(rl + 1); memcpy(repl, r, rl); repl[rl] = 0;
            size_t runs = 0;
            for (size_t i = 0; i < len; i++) if (src[i] >= 0x80 && (i == 0 || src[i-1] < 0x80)) runs++;
            size_t cap = len + runs * rl;   /* upper bound of the result length */
            uint8_t* buf = malloc(cap + (cap == 0)); memcpy(buf, src, len);
            size_t nl = gp_bytes_to_valid(buf, len, repl);
            vp_puthex(buf, nl); puts("");
            free(buf); free(repl); free(r); free(src);
        } else if (!strcmp(t[0], "vsweep") && n == 3) {
            size_t pl; uint8_t* p = vp_hex(t[1], &pl); sweep('v', p, pl, atoi(t[2]), 0); free(p);
        } else if (!strcmp(t[0], "asweep") && n == 4) {
            size_t pl; uint8_t* p = vp_hex(t[1], &pl); sweep('a', p, pl, atoi(t[2]), (unsigned)atoi(t[3])); free(p);
        } else if (!strcmp(t[0], "csweep") && n == 4) {
            size_t pl; uint8_t* p = vp_hex(t[1], &pl); sweep('c', p, pl, atoi(t[2]), (unsigned)atoi(t[3])); free(p);
        } else puts("bad-op");
        fflush(stdout);
    }
    return 0;
}
