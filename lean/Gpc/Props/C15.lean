import Gpc.Model.Scratch
import Gpc.Proofs.Array
/-!
# C15 — temporary memory is given back; memory use is linear in input and output size

`Gpc.Scratch` runs the arena operations of every scratch-using function on the arena model of C01.
-/
namespace Gpc.Scratch
open Gpc.Arena (Arena Addr Node)

/-- what a caller can observe of an arena: capacity and bump position of every node -/
def shape (a : Arena) : List (Nat × Nat) := a.nodes.map fun n => (n.cap, n.pos)

/-- `a` is `base` after allocations made behind the rewind point: the nodes of `base` below its head
are untouched, its head node has the same capacity and a position not before the rewind point, and
any number of newer nodes may sit on top -/
def Above (base a : Arena) : Prop :=
  ∃ extra n n' tail, base.nodes = n :: tail ∧ a.nodes = extra ++ n' :: tail ∧ n'.cap = n.cap ∧ n.pos ≤ n'.pos ∧
    a.align = base.align ∧ a.maxSize = base.maxSize

/-- the address of the rewind point taken in `base`: a zero-size allocation returns the bump pointer -/
def marker (base : Arena) : Addr :=
  match base.nodes with
  | n :: tail => ⟨tail.length, n.pos⟩
  | [] => ⟨0, 0⟩

/-- a block allocated behind the rewind point -/
def Behind (base : Arena) (p : Addr) : Prop :=
  (marker base).node < p.node ∨ ((marker base).node = p.node ∧ (marker base).off ≤ p.off)

theorem above_refl (base : Arena) (h : base.nodes ≠ []) : Above base base := by
  cases hn : base.nodes with
  | nil => exact absurd hn h
  | cons n tail => exact ⟨[], n, n, tail, hn, hn, rfl, Nat.le_refl _, rfl, rfl⟩

/-- a zero-size allocation that fits returns the bump pointer and does not move it -/
theorem marker_alloc (base : Arena) (n : Node) (tail : List Node) (hn : base.nodes = n :: tail) (hfit : n.pos ≤ n.cap) :
    (Gpc.Arena.alloc g base 0).2 = marker base ∧ shape (Gpc.Arena.alloc g base 0).1 = shape base := by
  unfold Gpc.Arena.alloc Gpc.Arena.allocRaw marker shape
  simp only [hn]
  have : Gpc.Arena.roundUp 0 base.align = 0 := by
    unfold Gpc.Arena.roundUp
    rcases Nat.eq_zero_or_pos base.align with h | h
    · simp [h]
    · have : (base.align - 1) / base.align = 0 := Nat.div_eq_of_lt (by omega)
      simp [this]
  simp only [this, Nat.add_zero]
  rw [if_neg (by omega)]
  simp

/-- **allocating keeps everything at and below the rewind point** -/
theorem above_alloc (base a : Arena) (k : Nat) (h : Above base a) :
    Above base (Gpc.Arena.alloc g a k).1 ∧ Behind base (Gpc.Arena.alloc g a k).2 := by
  obtain ⟨extra, n, n', tail, hb, ha, hcap, hpos, hal, hmx⟩ := h
  unfold Gpc.Arena.alloc Gpc.Arena.allocRaw Behind marker
  simp only [hb]
  cases extra with
  | nil =>
    simp only [List.nil_append] at ha
    simp only [ha]
    split
    · exact ⟨⟨[_], n, n', tail, hb, rfl, hcap, hpos, hal, hmx⟩, Or.inl (by simp)⟩
    · exact ⟨⟨[], n, _, tail, hb, rfl, hcap, by simp; omega, hal, hmx⟩, Or.inr ⟨by simp, by simpa using hpos⟩⟩
  | cons e es =>
    simp only [List.cons_append] at ha
    simp only [ha]
    split
    · exact ⟨⟨_ :: e :: es, n, n', tail, hb, rfl, hcap, hpos, hal, hmx⟩, Or.inl (by simp; omega)⟩
    · exact ⟨⟨_ :: es, n, n', tail, hb, rfl, hcap, hpos, hal, hmx⟩, Or.inl (by simp; omega)⟩

/-- **rewinding to the rewind point restores the arena as the caller sees it** -/
theorem rewind_restores (base a : Arena) (h : Above base a) (hfit : ∀ n ∈ base.nodes.head?, n.pos ≤ n.cap) :
    ∃ a', Gpc.Arena.rewind a (marker base) = some a' ∧ shape a' = shape base := by
  obtain ⟨extra, n, n', tail, hb, ha, hcap, hpos, hal, hmx⟩ := h
  unfold Gpc.Arena.rewind marker
  simp only [hb, ha]
  have hdrop : (extra ++ n' :: tail).length - 1 - tail.length = extra.length := by simp
  rw [hdrop, List.drop_left']
  · have hf : n.pos ≤ n.cap := hfit n (by simp [hb])
    simp only
    rw [if_pos ⟨by simp, by rw [hcap]; exact hf⟩]
    exact ⟨_, rfl, by simp [shape, hb, hcap]⟩
  · rfl

theorem forgetAt_above (extra : List Node) (n' : Node) (tail : List Node) (i off : Nat) (hi : i ≤ extra.length) :
    ∃ extra' n'', Gpc.Arena.forgetAt (extra ++ n' :: tail) i off = extra' ++ n'' :: tail ∧
      n''.cap = n'.cap ∧ n''.pos = n'.pos := by
  induction extra generalizing i with
  | nil =>
    have : i = 0 := by simpa using hi
    subst this
    exact ⟨[], _, rfl, rfl, rfl⟩
  | cons e es ih =>
    cases i with
    | zero => exact ⟨_ :: es, n', rfl, rfl, rfl⟩
    | succ j =>
      obtain ⟨ex, n'', h1, h2, h3⟩ := ih j (by simpa using hi)
      exact ⟨e :: ex, n'', by simp [Gpc.Arena.forgetAt, h1], h2, h3⟩

/-- **growing a temporary in the arena keeps everything at and below the rewind point** -/
theorem above_realloc (base a : Arena) (p : Addr) (old new : Nat) (h : Above base a) (hp : Behind base p) :
    Above base (Gpc.Arena.realloc g a p old new).arena ∧ Behind base (Gpc.Arena.realloc g a p old new).addr := by
  obtain ⟨extra, n, n', tail, hb, ha, hcap, hpos, hal, hmx⟩ := h
  unfold Gpc.Arena.realloc
  cases hnodes : a.nodes with
  | nil => rw [ha] at hnodes; cases extra <;> simp at hnodes
  | cons head rest =>
    simp only
    split
    · -- last block: the position goes back to the block, then the new size is allocated
      rename_i hlast
      have habove : Above base { a with nodes := { head with pos := p.off, blocks := head.blocks.filter (fun b => b.off < p.off) } :: rest } := by
        cases extra with
        | nil =>
          rw [ha] at hnodes
          simp only [List.nil_append, List.cons.injEq] at hnodes
          obtain ⟨h1, h2⟩ := hnodes
          subst h1; subst h2
          refine ⟨[], n, _, tail, hb, rfl, hcap, ?_, hal, hmx⟩
          simp only
          rcases hp with hlt | ⟨_, hle⟩
          · simp only [marker, hb] at hlt; omega
          · simpa [marker, hb] using hle
        | cons e es =>
          rw [ha] at hnodes
          simp only [List.cons_append, List.cons.injEq] at hnodes
          obtain ⟨h1, h2⟩ := hnodes
          subst h1
          exact ⟨{ cap := e.cap, pos := p.off, blocks := e.blocks.filter (fun b => decide (b.off < p.off)) } :: es, n, n', tail, hb,
            by rw [← h2]; rfl, hcap, hpos, hal, hmx⟩
      have := above_alloc base _ new habove
      exact this
    · have h1 := above_alloc base a new ⟨extra, n, n', tail, hb, ha, hcap, hpos, hal, hmx⟩
      obtain ⟨⟨extra2, n2, n2', tail2, hb2, ha2, hcap2, hpos2, hal2, hmx2⟩, hbeh⟩ := h1
      have htail : tail2 = tail ∧ n2 = n := by rw [hb] at hb2; simp at hb2; exact ⟨hb2.2.symm, hb2.1.symm⟩
      obtain ⟨rfl, rfl⟩ := htail
      simp only [Gpc.Arena.alloc] at ha2 hal2 hmx2 hbeh
      refine ⟨?_, hbeh⟩
      unfold Gpc.Arena.forget
      rw [ha2]
      have hi : (extra2 ++ n2' :: tail2).length - 1 - p.node ≤ extra2.length := by
        have : tail2.length ≤ p.node := by
          rcases hp with hlt | ⟨he, _⟩
          · simp only [marker, hb] at hlt; omega
          · simp only [marker, hb] at he; omega
        simp; omega
      obtain ⟨ex, n3, e3, c3, p3⟩ := forgetAt_above extra2 n2' tail2 _ p.off hi
      exact ⟨ex, n2, n3, tail2, hb, by simpa using e3, by rw [c3, hcap2], by rw [p3]; exact hpos2, hal2, hmx2⟩

/-! ### the operations of the scripts -/

theorem st_alloc (base : Arena) (s : St) (k : Nat) (h : Above base s.arena) :
    Above base (s.alloc k).1.arena ∧ Behind base (s.alloc k).2 := above_alloc base s.arena k h

theorem st_arrNew (base : Arena) (s : St) (es count : Nat) (h : Above base s.arena) :
    Above base (s.arrNew es count).1.arena ∧ Behind base (s.arrNew es count).2.addr :=
  st_alloc base s (arrBytes es count) h

theorem st_reserve (base : Arena) (s : St) (t : Tmp) (req : Nat) (h : Above base s.arena) (ht : Behind base t.addr) :
    Above base (s.reserve t req).1.arena ∧ Behind base (s.reserve t req).2.addr := by
  unfold St.reserve
  split
  · exact above_realloc base s.arena t.addr _ _ h ht
  · exact ⟨h, ht⟩

theorem st_appends (base : Arena) (extra : Nat) (ns : List Nat) : ∀ (s : St) (t : Tmp), Above base s.arena → Behind base t.addr →
    Above base (s.appends t extra ns).1.arena ∧ Behind base (s.appends t extra ns).2.addr := by
  induction ns with
  | nil => intro s t h ht; exact ⟨h, ht⟩
  | cons n ns ih =>
    intro s t h ht
    obtain ⟨h1, h2⟩ := st_reserve base s t (t.len + n + extra) h ht
    exact ih _ _ h1 h2

theorem st_foldInto (base : Arena) (s : St) (t : Tmp) (loc : Gpc.CaseFull.Loc) (cps : List Nat) (bl : Nat)
    (h : Above base s.arena) (ht : Behind base t.addr) :
    Above base (foldInto s t loc cps bl).1.arena := by
  unfold foldInto
  obtain ⟨h1, h2⟩ := st_reserve base s { t with len := 0 } (bl + 1) h ht
  simp only
  refine (st_appends base 1 _ _ _ h1 ?_).1
  exact h2

/-- the head node of a well-formed arena: position within capacity (part of C01's invariant) -/
def Fits (a : Arena) : Prop := ∃ n tail, a.nodes = n :: tail ∧ n.pos ≤ n.cap

theorem st_rewind (base : Arena) (s : St) (hf : Fits base) (h : Above base s.arena) :
    ∃ s', s.rewind (marker base) = some s' ∧ shape s'.arena = shape base := by
  obtain ⟨n, tail, hn, hfit⟩ := hf
  obtain ⟨a', e, sh⟩ := rewind_restores base s.arena h (by intro x hx; simp [hn] at hx; subst hx; exact hfit)
  exact ⟨{ s with arena := a', frees := s.frees + (s.arena.nodes.length - a'.nodes.length) }, by simp [St.rewind, e], sh⟩

theorem st_marker (s : St) (hf : Fits s.arena) :
    (s.alloc 0).2 = marker s.arena ∧ Above s.arena (s.alloc 0).1.arena := by
  obtain ⟨n, tail, hn, hfit⟩ := hf
  refine ⟨(marker_alloc s.arena n tail hn hfit).1, ?_⟩
  exact (above_alloc s.arena s.arena 0 (above_refl s.arena (by simp [hn]))).1

/-! ### every scratch-using function leaves the scratch arena where it found it -/

/-- **C15, full case mapping** (`gp_str_to_upper_full`, `gp_str_to_lower_full`): for every prior state of
the scratch arena, every input length and every sequence of appended chunk sizes (any number of
expanding code points), the final rewind succeeds and every node has the capacity and position it
had when the call began. -/
theorem caseFull_restores (s : St) (byteLen : Nat) (chunks : List Nat) (hf : Fits s.arena) :
    ∃ s', caseFullScript s byteLen chunks = some s' ∧ shape s'.arena = shape s.arena := by
  obtain ⟨hm, h0⟩ := st_marker s hf
  unfold caseFullScript
  simp only
  obtain ⟨h1, t1⟩ := st_arrNew s.arena (s.alloc 0).1 4 byteLen h0
  obtain ⟨h2, _⟩ := st_appends s.arena 0 chunks _ _ h1 t1
  rw [hm]
  exact st_rewind s.arena _ hf h2

/-- **C15, simple case mapping** (`gp_str_to_upper / _lower / _title`) -/
theorem caseSimple_restores (s : St) (byteLen : Nat) (hf : Fits s.arena) :
    ∃ s', caseSimpleScript s byteLen = some s' ∧ shape s'.arena = shape s.arena := by
  obtain ⟨hm, h0⟩ := st_marker s hf
  unfold caseSimpleScript
  simp only
  obtain ⟨h1, _⟩ := st_arrNew s.arena (s.alloc 0).1 4 byteLen h0
  rw [hm]
  exact st_rewind s.arena _ hf h1

/-- **C15, comparison with fold / collate** (`gp_str_compare`): both wide strings may be moved by their
reserves, in any order of sizes -/
theorem compare_restores (s : St) (fold : Bool) (loc : Gpc.CaseFull.Loc) (a b : List Nat) (la lb : Nat) (hf : Fits s.arena) :
    ∃ s', compareScript s fold loc a b la lb = some s' ∧ shape s'.arena = shape s.arena := by
  obtain ⟨hm, h0⟩ := st_marker s hf
  unfold compareScript
  simp only
  obtain ⟨h1, t1⟩ := st_arrNew s.arena (s.alloc 0).1 4 (a.length + 1) h0
  obtain ⟨h2, t2⟩ := st_arrNew s.arena _ 4 (b.length + 1) h1
  rw [hm]
  cases fold with
  | false => exact st_rewind s.arena _ hf h2
  | true =>
    simp only [if_true]
    have h3 := st_foldInto s.arena _ _ loc a la h2 t1
    have h4 := st_foldInto s.arena _ _ loc b lb h3 t2
    exact st_rewind s.arena _ hf h4

theorem st_sortFold (base : Arena) (fold : Bool) (loc : Gpc.CaseFull.Loc) (strs : List (List Nat × Nat)) :
    ∀ s : St, Above base s.arena →
    Above base (strs.foldl (fun s (p : List Nat × Nat) =>
      if fold then (foldInto (s.arrNew 4 (p.2 + 1)).1 (s.arrNew 4 (p.2 + 1)).2 loc p.1 p.2).1 else (s.arrNew 4 (p.2 + 1)).1) s).arena := by
  induction strs with
  | nil => intro s h; exact h
  | cons p ps ih =>
    intro s h
    simp only [List.foldl_cons]
    apply ih
    obtain ⟨h1, t1⟩ := st_arrNew base s 4 (p.2 + 1) h
    cases fold with
    | false => exact h1
    | true => exact st_foldInto base _ _ loc p.1 p.2 h1 t1

/-- **C15, sorting with fold / collate** (`gp_str_sort`): any number of strings -/
theorem sort_restores (s : St) (fold : Bool) (loc : Gpc.CaseFull.Loc) (strs : List (List Nat × Nat)) (hf : Fits s.arena) :
    ∃ s', sortScript s fold loc strs = some s' ∧ shape s'.arena = shape s.arena := by
  obtain ⟨hm, h0⟩ := st_marker s hf
  unfold sortScript
  simp only
  obtain ⟨h1, _⟩ := st_alloc s.arena (s.alloc 0).1 (24 * strs.length) h0
  rw [hm]
  have h2 := st_sortFold s.arena fold loc strs _ h1
  exact st_rewind s.arena _ hf h2

theorem fits_of_shape (a b : Arena) (h : shape a = shape b) (hf : Fits b) : Fits a := by
  obtain ⟨n, tail, hn, hfit⟩ := hf
  unfold shape at h
  rw [hn] at h
  cases ha : a.nodes with
  | nil => simp [ha] at h
  | cons m t =>
    rw [ha] at h
    simp only [List.map_cons, List.cons.injEq, Prod.mk.injEq] at h
    exact ⟨m, t, ha, by omega⟩

/-- **C15, repetition**: a call that restores the arena can be repeated any number of times; the arena is
the same after every call (bounded memory) -/
theorem repeat_restores (f : St → Option St)
    (hf : ∀ s, Fits s.arena → ∃ s', f s = some s' ∧ shape s'.arena = shape s.arena) :
    ∀ (n : Nat) (s : St), Fits s.arena →
      ∃ s', (Nat.rec (motive := fun _ => St → Option St) some (fun _ r st => (f st).bind r) n) s = some s' ∧
        shape s'.arena = shape s.arena := by
  intro n
  induction n with
  | zero => intro s _; exact ⟨s, rfl, rfl⟩
  | succ k ih =>
    intro s hs
    obtain ⟨s1, e1, sh1⟩ := hf s hs
    obtain ⟨s2, e2, sh2⟩ := ih s1 (fits_of_shape _ _ sh1 hs)
    exact ⟨s2, by simp [e1, e2], by rw [sh2, sh1]⟩

/-! ## growth of the work arrays is linear -/

theorem np2_le_double (x : Nat) (hx : 1 ≤ x) : Gpc.Arr.np2 x ≤ 2 * x := by
  unfold Gpc.Arr.np2
  rw [if_neg (by omega), Nat.pow_succ]
  have := Nat.log2_self_le (by omega : x ≠ 0)
  omega

/-- capacity after a reserve: what it was, or at most twice the request -/
theorem reserve_cap (s : St) (t : Tmp) (req : Nat) :
    (s.reserve t req).2.cap ≤ max t.cap (2 * req) ∧ req ≤ (s.reserve t req).2.cap ∧ (s.reserve t req).2.len = t.len := by
  unfold St.reserve
  split
  · rename_i h
    have h1 := np2_le_double req (by omega)
    have h2 := Gpc.Arr.np2_gt req
    exact ⟨by simp only; omega, by simp only; omega, rfl⟩
  · rename_i h
    exact ⟨by simp only; omega, by simp only; omega, rfl⟩

/-- **C15, the work array never holds more than twice what is needed** (or its initial capacity): for
every sequence of appended chunks — in particular any number of expanding code points — capacity is
linear in the number of code points produced.  (Before the repair every multi-code-point chunk
doubled the capacity.) -/
theorem appends_cap_linear (extra : Nat) (ns : List Nat) : ∀ (s : St) (t : Tmp),
    (s.appends t extra ns).2.cap ≤ max t.cap (2 * ((s.appends t extra ns).2.len + extra)) ∧
    (s.appends t extra ns).2.len = t.len + ns.sum := by
  induction ns with
  | nil => intro s t; simp only [St.appends, List.sum_nil, Nat.add_zero]; exact ⟨Nat.le_max_left _ _, trivial⟩
  | cons n ns ih =>
    intro s t
    simp only [St.appends, St.append]
    obtain ⟨c1, c2, c3⟩ := reserve_cap s t (t.len + n + extra)
    obtain ⟨i1, i2⟩ := ih (s.reserve t (t.len + n + extra)).1
      { (s.reserve t (t.len + n + extra)).2 with len := (s.reserve t (t.len + n + extra)).2.len + n }
    simp only at i1 i2
    refine ⟨?_, by rw [i2, c3]; simp; omega⟩
    rw [i2] at i1 ⊢
    rw [c3] at i1 ⊢
    omega

/-! ## non-vacuity -/

example : Fits fresh := ⟨_, _, rfl, by decide⟩
-- 64 sharp s: one growth to 512 bytes more than the first node holds; everything is given back
example : (caseFullScript { arena := fresh } 128 (List.replicate 64 2)).map (fun s => (shape s.arena, s.mallocs, s.frees)) =
    some ([(256, 0)], [576], 1) := by decide +kernel
-- 300 expansions (900 code points) from a 2-byte string: geometric growth, every node is given back
example : (caseFullScript { arena := fresh } 2 (List.replicate 300 3)).map (fun s => (shape s.arena, s.mallocs, s.frees)) =
    some ([(256, 0)], [544, 1056, 2080, 4128, 8224], 5) := by decide +kernel

end Gpc.Scratch
