import Gpc.Spec.Utf8
import Gpc.Proofs.Utf8
import Gpc.Proofs.Search
/-!
Self-synchronisation of UTF-8: in a concatenation of well-formed sequences, a well-formed
sequence occurs as a substring only at sequence boundaries.  This is what makes the library's
`strstr`-based set membership (`gp_str_trim`, `gp_str_find_first_of`, `gp_str_split`) equal to
membership in the set of code points.
-/
namespace Gpc.Utf8
open Gpc.Search (OccursAt memmem memmem_some memmem_none)

/-- a complete well-formed sequence (one code point's bytes) -/
def IsCp (c : Bytes) : Prop := c ≠ [] ∧ wfLen c = c.length

/-- bytes after the first of a well-formed sequence are continuation bytes -/
theorem cont_of_wfLen (s : Bytes) (n : Nat) (hn : wfLen s = n) (j : Nat) (h0 : 0 < j) (hj : j < n) :
    ∃ b, s[j]? = some b ∧ cont b := by
  rcases s with _ | ⟨b0, _ | ⟨b1, _ | ⟨b2, _ | ⟨b3, r⟩⟩⟩⟩ <;>
    simp only [wfLen] at hn <;> (repeat' split at hn) <;> subst hn <;>
    (first | omega | (
      rcases j with _ | _ | _ | _ | j <;> first | omega | (simp_all [sec3, sec4])))

/-- the first byte of a well-formed sequence is not a continuation byte -/
theorem lead_not_cont (s : Bytes) (h : wfLen s ≠ 0) : ∃ b, s[0]? = some b ∧ ¬ cont b := by
  rcases s with _ | ⟨b0, t⟩
  · simp [wfLen] at h
  · refine ⟨b0, rfl, ?_⟩
    intro hc
    unfold cont at hc
    apply h
    simp only [wfLen]
    (repeat' split) <;> omega

theorem IsCp.length_pos {c : Bytes} (h : IsCp c) : 0 < c.length := List.length_pos_iff.mpr h.1

/-- two well-formed sequences starting at the same place are the same sequence -/
theorem isCp_prefix_unique (c ch t R : Bytes) (hc : IsCp c) (hch : IsCp ch) (e : c ++ t = ch ++ R) : c = ch := by
  have h1 := wfLen_append c t hc.1 hc.2
  have h2 := wfLen_append ch R hch.1 hch.2
  rw [e, h2] at h1
  have := congrArg (List.take c.length) e
  rw [List.take_left' rfl, ← h1, List.take_left' rfl] at this
  exact this

/-- self-synchronisation: an occurrence of one code point's bytes inside a concatenation of code
points is one of those code points -/
theorem occurs_mem (cs : List Bytes) (hcs : ∀ x ∈ cs, IsCp x) (c : Bytes) (hc : IsCp c) (i : Nat)
    (ho : OccursAt cs.flatten c i) : c ∈ cs := by
  induction cs generalizing i with
  | nil =>
    unfold OccursAt at ho
    simp only [List.flatten_nil, List.drop_nil] at ho
    exact absurd (List.prefix_nil.mp ho) hc.1
  | cons ch rest ih =>
    have hch := hcs ch List.mem_cons_self
    have hchl := hch.length_pos
    simp only [List.flatten_cons] at ho
    by_cases hi : i < ch.length
    · -- the occurrence starts inside the first code point: it must be at its very start
      obtain ⟨t, ht⟩ := ho
      by_cases h0 : i = 0
      · subst h0
        simp only [List.drop_zero] at ht
        exact List.mem_cons.2 (Or.inl (isCp_prefix_unique c ch t rest.flatten hc hch ht))
      · exfalso
        -- byte `i` of `ch` is a continuation byte, but it is the first byte of `c`
        obtain ⟨b, hb1, hb2⟩ := cont_of_wfLen ch ch.length hch.2 i (by omega) hi
        obtain ⟨b', hb1', hb2'⟩ := lead_not_cont c (by rw [hc.2]; have := hc.length_pos; omega)
        have e1 : (ch ++ rest.flatten)[i]? = some b := by rw [List.getElem?_append_left hi]; exact hb1
        have e2 : (ch ++ rest.flatten)[i]? = ((ch ++ rest.flatten).drop i)[0]? := by simp
        rw [← ht] at e2
        have hcl := hc.length_pos
        rw [List.getElem?_append_left hcl, hb1'] at e2
        rw [e1] at e2
        injection e2 with e3; subst e3; exact hb2' hb2
    · have : OccursAt rest.flatten c (i - ch.length) := by
        unfold OccursAt at ho ⊢
        rw [List.drop_append] at ho
        rw [List.drop_of_length_le (by omega), List.nil_append] at ho
        exact ho
      exact List.mem_cons_of_mem _ (ih (fun x hx => hcs x (List.mem_cons_of_mem _ hx)) _ this)

end Gpc.Utf8
