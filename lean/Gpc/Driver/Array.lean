import Gpc.Model.Proto
import Gpc.Model.Array
namespace Gpc.Driver
open Gpc.Proto Gpc.Arr

structure ArrSt where
  a : Arr := Gpc.Arr.new 1 0 .heap
  alive : Bool := false

def fmap (e : Bytes) : Bytes := e.map fun b => b * 3 + 1
def fpred (e : Bytes) : Bool := match e with | b :: _ => b % 2 == 1 | [] => false
def ffold (acc : Nat) (e : Bytes) : Nat := (acc * 31 + (e.headD 0).toNat) % 2^64

def showArr (a : Arr) : String :=
  s!"len={a.length} " ++ toHex (bytes a) ++ (if a.length ≤ a.capacity then "" else " CAP<LEN")

def arrStep (s : ArrSt) (toks : List String) : ArrSt × String :=
  let fin (r : Option Arr) : ArrSt × String :=
    match r with
    | none => (s, "oob")
    | some a' => ({ s with a := a' }, showArr a')
  match toks with
  | ["new", kind, es, count] =>
    match es.toNat?, count.toNat? with
    | some es, some count =>
      if es = 0 then (s, "bad-op") else
      let a := match kind with
        | "heap" => Gpc.Arr.new es count .heap
        | "arena" => Gpc.Arr.new es count .arena
        | "arena2" => Gpc.Arr.new es count .arena
        | "scope" => Gpc.Arr.new es count .arena
        | "stack" => onStack es count true
        | "stack0" => onStack es count false
        | _ => Gpc.Arr.new es count .heap
      ({ a := a, alive := true }, showArr a)
    | _, _ => (s, "bad-op")
  | ["reserve", n] => match n.toNat? with
    | some n => fin (some (reserve s.a n)) | none => (s, "bad-op")
  | ["push", h] => match parseHex h with
    | some e => if e.length = s.a.es then fin (push s.a e) else (s, "bad-op") | none => (s, "bad-op")
  | ["pop"] => match pop s.a with
    | some (e, a') => ({ s with a := a' }, toHex e ++ " " ++ showArr a') | none => (s, "bad-op")
  | ["append", h] => match parseHex h with
    | some src => if src.length % s.a.es = 0 then fin (append s.a src (src.length / s.a.es)) else (s, "bad-op")
    | none => (s, "bad-op")
  | ["insert", pos, h] => match pos.toNat?, parseHex h with
    | some pos, some src => if src.length % s.a.es = 0 ∧ pos ≤ s.a.length then fin (insert s.a pos src (src.length / s.a.es)) else (s, "bad-op")
    | _, _ => (s, "bad-op")
  | ["erase", pos, cnt] => match pos.toNat?, cnt.toNat? with
    | some pos, some cnt => if pos + cnt ≤ s.a.length then fin (erase s.a pos cnt) else (s, "bad-op")
    | _, _ => (s, "bad-op")
  | ["copy", h] => match parseHex h with
    | some src => if src.length % s.a.es = 0 then fin (copy s.a src (src.length / s.a.es)) else (s, "bad-op")
    | none => (s, "bad-op")
  | ["slice", st, en] => match st.toNat?, en.toNat? with
    | some st, some en => if st ≤ en ∧ en ≤ s.a.length then fin (sliceSelf s.a st en) else (s, "bad-op")
    | _, _ => (s, "bad-op")
  | ["slicefrom", h, st, en] => match parseHex h, st.toNat?, en.toNat? with
    | some src, some st, some en => if st ≤ en ∧ en * s.a.es ≤ src.length then fin (sliceFrom s.a src st en) else (s, "bad-op")
    | _, _, _ => (s, "bad-op")
  | ["map"] => fin (mapSelf s.a fmap)
  | ["mapfrom", h] => match parseHex h with
    | some src => if src.length % s.a.es = 0 then fin (mapFrom s.a src (src.length / s.a.es) fmap) else (s, "bad-op")
    | none => (s, "bad-op")
  | ["filter"] => fin (filterSelf s.a fpred)
  | ["filterfrom", h] => match parseHex h with
    | some src => if src.length % s.a.es = 0 then fin (filterFrom s.a src (src.length / s.a.es) fpred) else (s, "bad-op")
    | none => (s, "bad-op")
  | ["fold"] => (s, s!"{fold s.a ffold 7} {foldr s.a ffold 7}")
  | ["delete"] => ({}, "ok")
  | ["end"] => ({}, "end")
  | _ => (s, "bad-op")

end Gpc.Driver
