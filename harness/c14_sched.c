/* C14 cooperative scheduler (library built with -DLIBGPC_VERIF in its pthread configuration).
 *
 *   cc sched arena  <scripts> <schedule>     scripts: per thread the sizes to allocate from one shared arena, "8,24|16|.."
 *   cc sched locale <scripts> <schedule>     scripts: per thread indices into the locale code table, "0,1|1,0"
 *   cc sched tests  <scripts> <schedule>     scripts: per thread the number of passing and failing tests "2.1|0.3"
 *
 * Every line runs in a child process.  The managed threads stop at the library's scheduling points
 * (GP_VERIF_SCHED_POINT: entry of gp_mutex_lock, gp_thread_once, between reading and updating the arena position, counter
 * updates) and the scheduler grants the run token thread by thread as <schedule> (a string of thread digits) says; a
 * thread that finds the mutex taken hands the token back (blocked); when the schedule is exhausted the unfinished
 * threads are granted in ascending order, round robin, until all are done.
 *
 * output   arena : t0:<off,off,..> t1:.. ov=<0|1>      offsets relative to the first block of the arena
 *          locale: t0:<id,id,..> .. created=<k>         objects renamed 0,1,.. by first appearance reading t0,t1,..; "n" = none;
 *                                                       k = calls of newlocale() (interposed: every code gets a fresh object)
 *          tests : count=<tests> fail=<0|1>             the total the framework reports and whether the process failed
 */
#ifndef _GNU_SOURCE
#define _GNU_SOURCE 1
#endif
#include <gpc/memory.h>
#include <gpc/unicode.h>
#include <gpc/assert.h>
#include <pthread.h>
#include <unistd.h>
#include <fcntl.h>
#include <sys/wait.h>
#include <signal.h>
#include "proto.h"

#define MAXT 4
#define MAXC 16
static pthread_mutex_t mu = PTHREAD_MUTEX_INITIALIZER;
static pthread_cond_t cv = PTHREAD_COND_INITIALIZER;
static int cur = -1;                 /* thread holding the run token, -1 = the scheduler */
static int finished[MAXT];
static __thread int my_id = -1;
static long grants, blocked_grants;

static void yield_token(void)
{
    pthread_mutex_lock(&mu);
    cur = -1; pthread_cond_broadcast(&cv);
    while (cur != my_id) pthread_cond_wait(&cv, &mu);
    pthread_mutex_unlock(&mu);
}

static __thread int in_once;         /* inside a once-initialisation: other threads may be parked in pthread_once, never yield there */

void gp_verif_sched_point(const char* tag, const void* object)
{
    (void)object;
    if (my_id < 0) return;           /* not a managed thread */
    if (!strcmp(tag, "once-done")) { in_once--; return; }
    if (in_once == 0) yield_token();
    if (!strcmp(tag, "once")) in_once++;
}

bool gp_verif_mutex_lock(void* mutex)
{
    if (my_id < 0 || in_once) return pthread_mutex_lock(mutex) == 0;
    yield_token();                                   /* scheduling point at the entry */
    while (pthread_mutex_trylock(mutex) != 0) { blocked_grants++; yield_token(); }
    return true;
}

/* every locale code gets a fresh, observable object (only C.UTF-8 exists in the sandbox); creations are counted */
#include <locale.h>
#include <dlfcn.h>
static int created;
locale_t newlocale(int mask, const char* name, locale_t base_)
{
    (void)name;
    static locale_t (*real)(int, const char*, locale_t);
    if (!real) real = (locale_t (*)(int, const char*, locale_t))dlsym(RTLD_NEXT, "newlocale");
    created++;
    return real(mask, "C.UTF-8", base_);          /* a valid object of its own for every call */
}

/* ---- thread bodies */
static int kind;                     /* 0 arena, 1 locale, 2 tests */
static GPArena* shared;
static unsigned char* base;
static size_t script[MAXT][MAXC]; static int nscript[MAXT];
static size_t res[MAXT][MAXC];
static const char* codes[] = { "en", "tr", "lt", "fi", "xx_YY" };

static void* body(void* arg)
{
    my_id = (int)(intptr_t)arg;
    pthread_mutex_lock(&mu);
    while (cur != my_id) pthread_cond_wait(&cv, &mu);
    pthread_mutex_unlock(&mu);
    for (int i = 0; i < nscript[my_id]; i++) {
        if (kind == 0) {
            unsigned char* p = gp_mem_alloc((GPAllocator*)shared, script[my_id][i]);
            memset(p, 0x40 + my_id, script[my_id][i]);
            res[my_id][i] = (size_t)(p - base);
        } else if (kind == 1) {
            res[my_id][i] = (size_t)gp_locale(codes[script[my_id][i] % 5]);
        } else {
            /* script value: 0 = a passing test, 1 = a failing one */
            gp_test("t"); if (script[my_id][i]) gp_expect(0 == 1); else gp_expect(1 == 1); gp_test(NULL);
        }
    }
    pthread_mutex_lock(&mu);
    finished[my_id] = 1; cur = -1; pthread_cond_broadcast(&cv);
    pthread_mutex_unlock(&mu);
    my_id = -1;
    return NULL;
}

static void grant(int t)
{
    pthread_mutex_lock(&mu);
    cur = t; grants++; pthread_cond_broadcast(&cv);
    while (cur != -1) pthread_cond_wait(&cv, &mu);
    pthread_mutex_unlock(&mu);
}

static void run_line(char** t, int n)
{
    if (n < 3) { puts("bad-op"); return; }
    kind = !strcmp(t[0], "arena") ? 0 : !strcmp(t[0], "locale") ? 1 : !strcmp(t[0], "tests") ? 2 : -1;
    if (kind < 0) { puts("bad-op"); return; }
    int nt = 0;
    char* save = NULL;
    for (char* th = strtok_r(t[1], "|", &save); th && nt < MAXT; th = strtok_r(NULL, "|", &save), nt++) {
        nscript[nt] = 0;
        if (strcmp(th, "-") == 0) continue;
        char* s2 = NULL;
        for (char* v = strtok_r(th, ",", &s2); v && nscript[nt] < MAXC; v = strtok_r(NULL, ",", &s2)) script[nt][nscript[nt]++] = strtoull(v, NULL, 10);
    }
    if (kind == 0) { shared = gp_arena_new_shared(1 << 16); base = gp_mem_alloc((GPAllocator*)shared, 16); }
    if (kind == 2) { int devnull = open("/dev/null", 1); dup2(devnull, 2); }       /* failure reports go to stderr */
    pthread_t th[MAXT];
    for (int i = 0; i < nt; i++) pthread_create(&th[i], NULL, body, (void*)(intptr_t)i);
    const char* sched = strcmp(t[2], "-") ? t[2] : "";
    for (const char* c = sched; *c; c++) { int k = *c - '0'; if (k >= 0 && k < nt && !finished[k]) grant(k); }
    for (;;) { int any = 0; for (int i = 0; i < nt; i++) if (!finished[i]) { any = 1; grant(i); } if (!any) break; }
    for (int i = 0; i < nt; i++) pthread_join(th[i], NULL);
    if (kind == 2) {
        /* gp_end_testing prints the totals; read them back through the summary on stdout */
        fflush(stdout);
        return;                      /* the child's exit handler prints the summary; the parent parses it */
    }
    /* results */
    if (kind == 1) {                 /* rename objects by first appearance */
        size_t seen[MAXT * MAXC]; int ns = 0;
        for (int i = 0; i < nt; i++) { printf("%st%d:", i ? " " : "", i); if (!nscript[i]) putchar('-');
            for (int j = 0; j < nscript[i]; j++) { size_t v = res[i][j]; int id = -1;
                if (v == 0) { printf("%sn", j ? "," : ""); continue; }
                for (int k = 0; k < ns; k++) if (seen[k] == v) id = k;
                if (id < 0) { seen[ns] = v; id = ns++; }
                printf("%s%d", j ? "," : "", id); } }
        printf(" created=%d\n", created);
        return;
    }
    int ov = 0;
    for (int i = 0; i < nt; i++) for (int j = 0; j < nscript[i]; j++) {
        for (size_t k = 0; k < script[i][j]; k++) if (base[res[i][j] + k] != 0x40 + i) ov = 1;
        for (int a = 0; a < nt; a++) for (int b = 0; b < nscript[a]; b++) if ((a != i || b != j) && res[a][b] < res[i][j] + script[i][j] && res[i][j] < res[a][b] + script[a][b]) ov = 1;
    }
    for (int i = 0; i < nt; i++) { printf("%st%d:", i ? " " : "", i); if (!nscript[i]) putchar('-');
        for (int j = 0; j < nscript[i]; j++) printf("%s%zu", j ? "," : "", res[i][j]); }
    printf(" ov=%d\n", ov);
}

int main(void)
{
    setvbuf(stdout, NULL, _IOLBF, 0);
    while (vp_next()) {
        if (vp_ntok < 5 || strcmp(vp_tok[0], "cc") || strcmp(vp_tok[1], "sched")) { puts("bad-op"); continue; }
        int fd[2]; if (pipe(fd)) { puts("bad-op"); continue; }
        fflush(stdout);
        pid_t pid = fork();
        if (pid == 0) {
            close(fd[0]); dup2(fd[1], 1); close(fd[1]);
            setvbuf(stdout, NULL, _IONBF, 0);
            alarm(3);                 /* a run whose threads block each other for good is killed (SIGALRM) */
            run_line(vp_tok + 2, vp_ntok - 2);
            fflush(stdout);
            exit(0);
        }
        close(fd[1]);
        char buf[8192]; size_t len = 0; ssize_t r;
        while ((r = read(fd[0], buf + len, sizeof buf - 1 - len)) > 0) len += (size_t)r;
        buf[len] = 0; close(fd[0]);
        int st; waitpid(pid, &st, 0);
        if (!strcmp(vp_tok[2], "tests")) {
            /* "A total of N tests ran in M suites" / "K tests failed" */
            unsigned total = 0, failed = 0; char* p = strstr(buf, "A total of ");
            if (p) sscanf(p, "A total of %u tests", &total);
            p = strstr(buf, " tests failed"); if (p) { while (p > buf && p[-1] >= '0' && p[-1] <= '9') p--; sscanf(p, "%u", &failed); }
            (void)failed;
            printf("count=%u fail=%d\n", total, !(WIFEXITED(st) && WEXITSTATUS(st) == 0));
        } else if (WIFSIGNALED(st) && WTERMSIG(st) == SIGALRM) puts("blocked-forever");
        else if (!WIFEXITED(st) || WEXITSTATUS(st) != 0 || len == 0) printf("died status=%d\n", st);
        else fputs(buf, stdout);
    }
    return 0;
}
