/-
Model of the library's shared facilities under concurrency, anchored by C14 (src/thread.h, src/memory.c
gp_arena_shared_alloc, src/unicode.c gp_locale, src/assert.c counters).

Three layers, all interleaving (sequentially consistent) semantics with an unbounded number of threads:

1. `Act` / `Cfg` / `step?`: the *synchronisation skeleton* of a thread - lock, unlock, plain accesses to shared
   objects, atomic read-modify-writes, once-initialisation, local work.  `Race` is the operational definition of a
   data race: two threads whose next actions conflict.  `guardedFrom` is the static discipline "every plain access to
   object v happens while holding the mutex `guard v`".  The skeletons of the real functions are regenerated from the
   source on every run (`Gpc.Generated.Conc`).
2. `Sec`: threads executing calls `lock; s := read shared; shared := (f s a).1; unlock` of an arbitrary sequential
   operation `f` (the arena's `alloc`, the cache's get-or-create) with the read and the write as separate steps.
3. `Ctr`: threads incrementing a shared counter atomically, and the non-atomic variant that loses updates.
-/
namespace Gpc.Conc

/-! ## 1. skeletons and data races -/

inductive Act where
  | lock (m : Nat)
  | unlock (m : Nat)
  | read (v : Nat)           -- plain read of shared object v
  | write (v : Nat)          -- plain write
  | rmw (v : Nat)            -- atomic access (GP_MAYBE_ATOMIC objects)
  | once (f : Nat)           -- gp_thread_once(&flag, init): pthread_once / call_once contract
  | getHit (v : Nat)         -- a lookup in table v that found the key (a read whose outcome the path depends on)
  | getMiss (v : Nat)        -- a lookup that did not
  | put (v : Nat)            -- insertion of the key into table v (a write)
  | loc                      -- thread-local work
deriving DecidableEq, Repr

inductive Kind where
  | r | w | a
deriving DecidableEq, Repr

/-- the shared object an action touches and how -/
def Act.access : Act → Option (Nat × Kind)
  | .read v => some (v, .r)
  | .getHit v => some (v, .r)
  | .getMiss v => some (v, .r)
  | .write v => some (v, .w)
  | .put v => some (v, .w)
  | .rmw v => some (v, .a)
  | _ => none

/-- two accesses to one object conflict unless both are reads or both are atomic -/
def conflict : Kind → Kind → Bool
  | .r, .r => false
  | .a, .a => false
  | _, _ => true

structure TS where
  held : List Nat
  rest : List Act
deriving Repr

structure Cfg where
  owner : Nat → Option Nat        -- mutex ↦ thread that holds it
  th : Nat → TS

def setTh (th : Nat → TS) (t : Nat) (x : TS) : Nat → TS := fun i => if i = t then x else th i
def setOwner (o : Nat → Option Nat) (m : Nat) (x : Option Nat) : Nat → Option Nat := fun i => if i = m then x else o i

/-- thread `t` takes its next action; `none` = finished or blocked -/
def step? (c : Cfg) (t : Nat) : Option Cfg :=
  match (c.th t).rest with
  | [] => none
  | .lock m :: r =>
    if c.owner m = none then some { owner := setOwner c.owner m (some t), th := setTh c.th t ⟨m :: (c.th t).held, r⟩ } else none
  | .unlock m :: r =>
    if c.owner m = some t then some { owner := setOwner c.owner m none, th := setTh c.th t ⟨(c.th t).held.erase m, r⟩ } else none
  | _ :: r => some { c with th := setTh c.th t ⟨(c.th t).held, r⟩ }

/-- reachable by any schedule -/
inductive Reach (c0 : Cfg) : Cfg → Prop where
  | refl : Reach c0 c0
  | step {c c' : Cfg} (t : Nat) : Reach c0 c → step? c t = some c' → Reach c0 c'

/-- a data race: two different threads are about to perform conflicting accesses to the same object -/
def Race (c : Cfg) : Prop :=
  ∃ t1 t2 a1 a2 r1 r2 v k1 k2, t1 ≠ t2 ∧ (c.th t1).rest = a1 :: r1 ∧ (c.th t2).rest = a2 :: r2 ∧
    a1.access = some (v, k1) ∧ a2.access = some (v, k2) ∧ conflict k1 k2 = true

/-- the locking discipline of a thread program: plain accesses to v only while holding `g v`; objects without a
guard are only accessed atomically -/
def heldGuard (g : Nat → Option Nat) (held : List Nat) (v : Nat) : Bool :=
  match g v with
  | some m => held.contains m
  | none => false

def accessOk (g : Nat → Option Nat) (held : List Nat) : Nat × Kind → Bool
  | (v, .a) => (g v).isNone
  | (v, _) => heldGuard g held v

def guardedFrom (g : Nat → Option Nat) : List Nat → List Act → Bool
  | _, [] => true
  | held, .lock m :: r => guardedFrom g (m :: held) r
  | held, .unlock m :: r => guardedFrom g (held.erase m) r
  | held, a :: r =>
    (match a.access with
     | none => true
     | some x => accessOk g held x)
    && guardedFrom g held r

/-- mutexes held after running a program from `held` -/
def heldAfter : List Nat → List Act → List Nat
  | held, [] => held
  | held, .lock m :: r => heldAfter (m :: held) r
  | held, .unlock m :: r => heldAfter (held.erase m) r
  | held, _ :: r => heldAfter held r

/-- a call path is closed if it releases what it takes -/
def closed (p : List Act) : Bool := heldAfter [] p == []

/-- inside one lock..unlock section every `put v` comes after a `getMiss v` of the same section, and a `getHit`
ends the search: the section does not insert after it -/
def putsChecked : (missed : List Nat) → (inSection : Bool) → List Act → Bool
  | _, _, [] => true
  | _, _, .lock _ :: r => putsChecked [] true r
  | _, _, .unlock _ :: r => putsChecked [] false r
  | ms, s, .getMiss v :: r => putsChecked (v :: ms) s r
  | ms, s, .put v :: r => s && ms.contains v && putsChecked (ms.erase v) s r
  | ms, s, _ :: r => putsChecked ms s r

/-! ## 2. sections `lock; read; write; unlock` around a sequential operation -/

inductive Phase (σ : Type) where
  | idle
  | locked
  | haveRead (s : σ)
  | written
deriving Repr

structure STh (σ α : Type) where
  phase : Phase σ
  todo : List α

structure Sec (σ α β : Type) where
  shared : σ
  owner : Option Nat
  th : Nat → STh σ α
  hist : List (Nat × α × β)   -- (thread, argument, result) of the calls in the order their writes happened

def setSTh {σ α} (th : Nat → STh σ α) (t : Nat) (x : STh σ α) : Nat → STh σ α := fun i => if i = t then x else th i

/-- thread `t` takes its next step of `lock; s := shared; shared := (f s a).1; unlock` -/
def Sec.step? {σ α β} (f : σ → α → σ × β) (c : Sec σ α β) (t : Nat) : Option (Sec σ α β) :=
  match (c.th t).phase, (c.th t).todo with
  | _, [] => none
  | .idle, _ :: _ => if c.owner = none then some { c with owner := some t, th := setSTh c.th t { c.th t with phase := .locked } } else none
  | .locked, _ :: _ => some { c with th := setSTh c.th t { c.th t with phase := .haveRead c.shared } }
  | .haveRead s, a :: _ =>
    some { c with shared := (f s a).1, th := setSTh c.th t { c.th t with phase := .written },
                  hist := c.hist ++ [(t, a, (f s a).2)] }
  | .written, _ :: rest => some { c with owner := none, th := setSTh c.th t { phase := .idle, todo := rest } }

inductive Sec.Reach {σ α β} (f : σ → α → σ × β) (c0 : Sec σ α β) : Sec σ α β → Prop where
  | refl : Sec.Reach f c0 c0
  | step {c c' : Sec σ α β} (t : Nat) : Sec.Reach f c0 c → Sec.step? f c t = some c' → Sec.Reach f c0 c'

/-- the sequential reference: run the calls one after the other -/
def seqRun {σ α β} (f : σ → α → σ × β) : σ → List α → σ × List β
  | s, [] => (s, [])
  | s, a :: r => let (s1, b) := f s a; let (s2, bs) := seqRun f s1 r; (s2, b :: bs)

def Sec.log {σ α β} (c : Sec σ α β) : List α := c.hist.map (·.2.1)
def Sec.outs {σ α β} (c : Sec σ α β) : List β := c.hist.map (·.2.2)
/-- the calls of thread `t` that have taken effect, in order -/
def Sec.doneBy {σ α β} (c : Sec σ α β) (t : Nat) : List α := (c.hist.filter (·.1 == t)).map (·.2.1)
/-- the calls thread `t` has not yet performed -/
def STh.pending {σ α} (x : STh σ α) : List α :=
  match x.phase with
  | .written => x.todo.tail
  | _ => x.todo

def Sec.init {σ α β} (s0 : σ) (scripts : Nat → List α) : Sec σ α β :=
  { shared := s0, owner := none, th := fun t => { phase := .idle, todo := scripts t }, hist := [] }

/-! ### the cache: get-or-create with fresh identities -/

structure Cache where
  table : List (Nat × Nat)      -- key ↦ identity of the object created for it
  next : Nat                    -- identities handed out so far
deriving Repr, DecidableEq

def getOrCreate (c : Cache) (k : Nat) : Cache × Nat :=
  match c.table.lookup k with
  | some v => (c, v)
  | none => ({ table := (k, c.next) :: c.table, next := c.next + 1 }, c.next)

/-! ## 3. counters -/

/-- `n` threads, thread `i` still has `rem[i]` atomic increments to do -/
structure Ctr where
  count : Nat
  rem : List Nat
deriving Repr, DecidableEq

def Ctr.step? (c : Ctr) (t : Nat) : Option Ctr :=
  match c.rem[t]? with
  | some (k + 1) => some { count := c.count + 1, rem := c.rem.set t k }
  | _ => none

inductive Ctr.Reach (c0 : Ctr) : Ctr → Prop where
  | refl : Ctr.Reach c0 c0
  | step {c c' : Ctr} (t : Nat) : Ctr.Reach c0 c → Ctr.step? c t = some c' → Ctr.Reach c0 c'

/-- the non-atomic increment `tmp = count; count = tmp + 1` of two threads, as a schedule of (thread, isWrite) -/
def plainIncr : (count : Nat) → (tmp : Nat → Nat) → List (Nat × Bool) → Nat
  | count, _, [] => count
  | count, tmp, (t, false) :: r => plainIncr count (fun i => if i = t then count else tmp i) r
  | _, tmp, (t, true) :: r => plainIncr (tmp t + 1) tmp r

/-! ## executable runs for the correspondence (schedules are lists of thread numbers) -/

def runSec {σ α β} (f : σ → α → σ × β) (c : Sec σ α β) : List Nat → Sec σ α β
  | [] => c
  | t :: r => match Sec.step? f c t with
    | some c' => runSec f c' r
    | none => runSec f c r          -- a blocked or finished thread: the scheduler's choice is a no-op

end Gpc.Conc
