import Gpc.Model.Arena
/-
Model of the scope allocator anchored by C02 (src/memory.c: gp_begin, gp_end, gp_end_scopes,
gp_last_scope_of, gp_last_scope, gp_scope_defer, gp_delete_scope_factory), as repaired
(gp_end pops a factory node that the rewind left empty).

The per-thread *factory* is an arena (the C01 model, alignment 16, growth 2.0, max 1<<15) of 64-byte
records; its first record is the factory itself.  Record memory is a function from addresses to the
record last written there (stale records of ended scopes stay readable, as in C).
`gp_last_scope_of` is pointer arithmetic: head position minus one record.
-/
namespace Gpc.Scope
open Gpc.Arena

/-- `gp_round_to_aligned(sizeof(GPScope), GP_ALLOC_ALIGNMENT)` -/
def recSize : Nat := 64

/-- a `GPScope` record as far as the property observes it -/
structure Rec where
  id : Nat                     -- identity of the scope (for the transcript)
  parent : Option Addr         -- `scope->parent`
  defers : List Nat            -- deferred calls (tags), in the order they were deferred
deriving DecidableEq, Repr

inductive Ev where
  | call (tag : Nat)           -- a deferred function runs
  | release (id : Nat)         -- the scope's arena is deleted
deriving DecidableEq, Repr

structure Factory where
  arena : Arena
  mem : Addr → Option Rec
  nextId : Nat

def selfAddr : Addr := ⟨0, 0⟩

/-- growth of the factory arena: `2.0 * capacity` -/
def g (c : Nat) : Nat := 2 * c

/-- `gp_new_scope_factory`: room for 64 scopes + the factory record itself -/
def newFactory : Factory :=
  let a := Gpc.Arena.new ((64 + 1) * recSize) 16 (2 ^ 15)
  { arena := (alloc g a recSize).1, mem := fun _ => none, nextId := 0 }

/-- `gp_last_scope_of`: `head->position - 64`; `none` = the pointer is not a record of the head
node (it points into the node header: garbage) -/
def lastScopeOf (f : Factory) : Option Addr :=
  match f.arena.nodes with
  | [] => none
  | head :: tail => if recSize ≤ head.pos then some ⟨tail.length, head.pos - recSize⟩ else none

def upd (m : Addr → Option Rec) (a : Addr) (r : Rec) : Addr → Option Rec :=
  fun b => if b = a then some r else m b

/-- `gp_begin`: result is the new scope's address; `none` when `gp_last_scope_of` was garbage -/
def begin (f : Factory) : Option (Factory × Addr) :=
  match lastScopeOf f with
  | none => none
  | some prev =>
    let parent := if prev = selfAddr then none else some prev
    let (a', p) := alloc g f.arena recSize
    some ({ arena := a', mem := upd f.mem p ⟨f.nextId, parent, []⟩, nextId := f.nextId + 1 }, p)

/-- `gp_scope_defer` -/
def defer (f : Factory) (p : Addr) (tag : Nat) : Option Factory :=
  match f.mem p with
  | none => none
  | some r => some { f with mem := upd f.mem p { r with defers := r.defers ++ [tag] } }

/-- `gp_end_scopes(scope, last_to_be_ended)`; `stop = none` is the NULL of thread exit.
`fuel` bounds the parent chain. `none` = a dangling pointer was followed. -/
def endScopes (mem : Addr → Option Rec) : (fuel : Nat) → Addr → Option Addr → Option (List Ev)
  | 0, _, _ => none
  | fuel + 1, cur, stop =>
    match mem cur with
    | none => none
    | some r =>
      let evs := r.defers.reverse.map Ev.call ++ [Ev.release r.id]
      match r.parent with
      | some prev => if some cur ≠ stop then (endScopes mem fuel prev stop).map (evs ++ ·) else some evs
      | none => some evs

/-- repair in `gp_end`: a newest node that the rewind left empty is popped (never the first node) -/
def popEmpty (a : Arena) : Arena :=
  match a.nodes with
  | head :: (t :: ts) => if head.pos = 0 then { a with nodes := t :: ts } else a
  | _ => a

/-- `gp_end(scope)` : events, then rewind of the factory to the record, then (repair) an emptied
newest node is popped -/
def endScope (f : Factory) (p : Addr) (fuel : Nat) : Option (Factory × List Ev) :=
  match lastScopeOf f with
  | none => none
  | some last =>
    match endScopes f.mem fuel last (some p) with
    | none => none
    | some evs =>
      match rewind f.arena p with
      | none => none
      | some a' => some ({ f with arena := popEmpty a' }, evs)

/-- `gp_last_scope(fallback)`: `some none` = fallback -/
def lastScope (f : Factory) : Option (Option Addr) :=
  match lastScopeOf f with
  | none => none
  | some a => if a = selfAddr then some none else some (some a)

/-- `gp_delete_scope_factory` at thread exit -/
def threadExit (f : Factory) (fuel : Nat) : Option (List Ev) :=
  match lastScopeOf f with
  | none => none
  | some a => if a = selfAddr then some [] else endScopes f.mem fuel a none

end Gpc.Scope
