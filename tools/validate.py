#!/usr/bin/env python3-vt
import json, jsonschema, glob, sys
m = json.load(open('/verif/MANIFEST.json'))
jsonschema.validate(m, json.load(open('/root/.vp/MANIFEST.schema.json')))
es = json.load(open('/root/.vp/EVIDENCE.schema.json'))
cat = {c['property_id']: c['level_claimed'].get('category', 'proof') for c in m['checks']}
bad = 0
for f in sorted(glob.glob('/verif/evidence/*.json')):
    e = json.load(open(f))
    jsonschema.validate(e, es)
    if cat.get(e['property_id']) != e['level']:
        print('LEVEL MISMATCH', f, e['level'], 'manifest says', cat.get(e['property_id'])); bad = 1
    else:
        print('ok', f)
print('manifest valid')
sys.exit(bad)
