"""C15 — temporary memory is given back; memory use is linear in input and output size."""
import os, sys
sys.path.insert(0, os.path.dirname(os.path.abspath(__file__)))
import vlib
import casefull_ref as CR

hx = lambda b: vlib.hexs(bytes(b))


def fields(o):
    t = o.split()
    d = {"res": t[0]}
    for x in t[1:]:
        if "=" in x: k, v = x.split("=", 1); d[k] = v
        elif ":" in x: k, v = x.split(":", 1); d[k] = v
    return d


def sizes(v):
    return [] if v in ("-", None) else [int(x) for x in v.split(",")]


def oracle(case, out):
    for l, o in zip(case, out):
        f = fields(o)
        t = l.split()
        reps = int(t[2]) if t[1] == "rep" else 1
        body = t[3:] if t[1] == "rep" else t[1:]
        held = 0
        if body[0] == "pre": held = int(body[1]); body = body[2:]
        if f.get("d") != "0":
            return "%s: the scratch arena is not at the position it had when the call began" % l
        nin = sum(len(x) // 2 for x in body if len(x) > 2 and all(c in "0123456789abcdef" for c in x))
        nout = len(f["res"]) // 2 if f["res"] not in ("-", "0", "1", "-1") else 0
        heap = sum(sizes(f.get("m")))
        strs = sum(sizes(f.get("s")))
        # a new arena node is sized by the arena's growth policy: twice the node the caller's own allocation filled
        bound = 64 * (nin + nout) + 4096 + 2 * (held + 64)
        # whatever the call takes from the heap for its temporaries goes back when it returns (the scratch arena may keep a node or two)
        kept = len(sizes(f.get("m"))) - int(f.get("f", "0"))
        if kept > 4:
            return "%s: %d heap blocks requested during the call(s) were not given back (%d requests, %s frees)" % (l, kept, len(sizes(f.get("m"))), f.get("f"))
        if heap > reps * bound:
            return "%s: %d bytes requested from the heap for the scratch arena; inputs %d + outputs %d bytes (bound %d per call)" % (l, heap, nin, nout, bound)
        if strs > bound:
            return "%s: %d bytes requested from the string's allocator; inputs %d + outputs %d bytes" % (l, strs, nin, nout)
    return None


def compare_lines(a, b):
    """result, position delta, heap requests and frees of the scratch arena must agree; the string allocator's
    requests (s:) are only bounded by the oracle"""
    for x, y in zip(a, b):
        fx, fy = fields(x), fields(y)
        if "," in fx["res"] or "," in fy["res"]:
            if sorted(fx["res"].split(",")) != sorted(fy["res"].split(",")): return False
        elif fx["res"] != fy["res"]: return False
        for k in ("d", "m", "f"):
            if fx.get(k) != fy.get(k): return False
    return len(a) == len(b)


def gen(ctx):
    r = ctx.rng; quick = ctx.tier == "quick"
    u = CR.ucd()
    exp = sorted(c for c, v in u.full["Uppercase_Mapping_full"].items() if len(v) > 1)
    lexp = [0x130, 0xCC, 0xCD, 0x128]
    plain = [0x61, 0x41, 0xE4, 0x416, 0x10400, 0x20, 0x3A3, 0x4E00]
    def rs(n, pexp):
        return [r.choice(exp + lexp) if r.random() < pexp else r.choice(plain) for _ in range(n)]
    cases = []
    lens = [0, 1, 3, 8, 15, 16, 17, 40, 55, 56, 57, 64, 100, 120, 128, 250, 600, 2000] + ([] if quick else [4096, 10000])
    for n in lens:
        for pexp in (0.0, 0.1, 0.5, 1.0):
            if quick and r.random() > 0.6: continue
            cps = rs(n, pexp); h = hx(CR.enc(cps))
            loc = r.choice(["-", "tr", "lt", "en"])
            cases.append(["cf up %s %d %s" % (loc, r.choice([0, 16]), h)])
            cases.append(["cf lo %s %d %s" % (loc, r.choice([0, 16]), h)])
            cases.append(["cf cap %s 4 %s" % (loc, h)])
            cases.append(["cf %s 8 %s" % (r.choice(["sup", "slo", "sti"]), h)])
            other = rs(r.choice([0, n, max(0, n - 3)]), pexp)
            fl = r.choice(["f", "fr", "c", "fc", "-"])
            cases.append(["cf cmp %s %s %s %s" % (fl, "-" if "c" in fl else r.choice(["-", "tr"]), h, hx(CR.enc(other)))])
    for k in (0, 1, 2, 5, 13, 40, 100):
        strs = [hx(CR.enc(rs(r.choice([0, 1, 4, 7, 8, 30, 120]), r.choice([0.0, 0.3])))) for _ in range(k)]
        for fl in ("f", "c", "fcr", "-"):
            cases.append(["cf sort %s - %s" % (fl, " ".join(strs))])
    # fold comparison and sorting under a language-specific locale code, installed or not (the locale cache is consulted per call / per element)
    for loc in ("tr", "lt", "xx_XX", "en"):
        strs = [hx(CR.enc(rs(r.choice([1, 4, 9, 30]), 0.3))) for _ in range(9)]
        cases.append(["cf sort f %s %s" % (loc, " ".join(strs))])
        cases.append(["cf rep 200 sort fr %s %s" % (loc, " ".join(strs[:5]))])
        cases.append(["cf rep 200 cmp f %s %s %s" % (loc, strs[0], strs[1])])
    # many expanding code points in one string; repetition
    for k in (5, 27, 64, 300, 1000):
        cases.append(["cf up - 4 " + hx(CR.enc([0xDF] * k))])
        cases.append(["cf lo lt 4 " + hx(CR.enc([0xCC] * k))])
        cases.append(["cf cmp f - %s %s" % (hx(CR.enc([0xDF] * k)), hx(CR.enc([0x1E9E] * k)))])
    # the caller holds scratch memory of its own: position inside a node, at the very end of an exactly filled node
    # (a request above twice the node size gets a node of exactly its size), and just before it
    for pre in (1, 100, 240, 256, 257, 600, 4096, 4080, 100000):
        h = hx(CR.enc(rs(r.choice([3, 40, 300]), 0.5)))
        cases.append(["cf pre %d up - 4 %s" % (pre, h)])
        cases.append(["cf pre %d lo lt 4 %s" % (pre, h)])
        cases.append(["cf pre %d slo 8 %s" % (pre, h)])
        cases.append(["cf pre %d cmp f - %s %s" % (pre, h, hx(CR.enc(rs(20, 0.5))))])
        cases.append(["cf pre %d sort fc - %s" % (pre, " ".join(hx(CR.enc(rs(9, 0.3))) for _ in range(7)))])
        cases.append(["cf rep 50 pre %d up - 4 %s" % (pre, h)])
    for reps in (2, 10, 1000 if quick else 20000):
        cases.append(["cf rep %d up - 4 %s" % (reps, hx(CR.enc([0xDF, 0x61, 0xFB03] * 30)))])
        cases.append(["cf rep %d lo tr 4 %s" % (reps, hx(CR.enc([0x130, 0x49, 0x307] * 40)))])
        cases.append(["cf rep %d cmp f - %s %s" % (reps, hx(CR.enc([0xDF] * 50)), hx(CR.enc([0x53] * 100)))])
        cases.append(["cf rep %d sort fc - %s" % (reps, " ".join(hx(CR.enc(rs(20, 0.3))) for _ in range(12)))])
        cases.append(["cf rep %d slo 8 %s" % (reps, hx(CR.enc(rs(300, 0.0))))])
    return cases


def run(ctx):
    ctx.rules.append("a case = one call (or 2 / 10 / 1000 / 20000 repetitions of one call) of a scratch-using function - simple and "
                     "full case mapping, capitalisation, comparison and sorting with fold / collate - in a fresh thread, on inputs of "
                     "0..2000 (thorough: 10000) code points with 0%, 10%, 50%, 100% expanding code points; observed: scratch position "
                     "before/after (zero-byte allocation), every size requested from gp_heap and every node freed during the call, "
                     "sizes requested from the result string's allocator; non-trivial = all; distinct by line")
    ctx.assumptions += ["the locale table and the locales used are created before the accounting starts",
                        "valid UTF-8 inputs"]
    exe = ctx.build_harness("c12")
    ctx.build_model()
    ctx.prove()
    cases = ctx.replay_cases if ctx.replay_cases is not None else (vlib.load_corpus("C15") + gen(ctx))
    ctx.correspond("scratch-traffic", exe, cases, oracle=oracle, compare=compare_lines, nontrivial=lambda c: True, timeout=300)
