import Gpc.Model.Proto
import Gpc.Model.Str
namespace Gpc.Driver
open Gpc.Proto Gpc.Str
open Gpc.Arr (Kind)

structure StrSt where
  s : Gpc.Str.Str := Gpc.Str.new 0 [] .heap

def showStr (s : Gpc.Str.Str) : String :=
  match cstr s with
  | none => s!"len={s.length} " ++ toHex (Gpc.Str.bytes s) ++ " CSTR-OOB"
  | some _ => s!"len={s.length} " ++ toHex (Gpc.Str.bytes s)

def showBuf (r : Option (List UInt8 × Nat)) : String :=
  match r with
  | none => "oob"
  | some (b, l) => s!"{l} " ++ toHex (b.take l)

def flagsOf (f : String) : Bool × Bool := (f.contains 'l', f.contains 'r')

def splitHexList (s : String) : Option (List (List UInt8)) :=
  if s == "." then some [] else (s.splitOn ",").mapM fun x => parseHex (if x == "" then "-" else x)

def strStep (st : StrSt) (toks : List String) : StrSt × String :=
  let fin (r : Option Gpc.Str.Str) : StrSt × String :=
    match r with
    | none => (st, "oob")
    | some s' => ({ s := s' }, showStr s')
  let s := st.s
  match toks with
  | ["new", kind, cap, h] =>
    match cap.toNat?, parseHex h with
    | some cap, some init =>
      let k := match kind with
        | "heap" => Kind.heap | "stack" => Kind.stack true | "stack0" => Kind.stack false | _ => Kind.arena
      if (kind == "stack" || kind == "stack0") && init.length > cap then (st, "bad-op") else
      let s0 := if kind == "stack" || kind == "stack0" then
          -- `gp_str_on_stack(allocator, capacity, "literal")`: capacity + 1 bytes of storage, the literal in front
          { length := init.length, capacity := cap, data := init ++ List.replicate (cap + 1 - init.length) 0, kind := k : Gpc.Str.Str }
        else Gpc.Str.new cap init k
      ({ s := s0 }, showStr s0)
    | _, _ => (st, "bad-op")
  | ["copy", h] => match parseHex h with | some x => fin (copy s x) | none => (st, "bad-op")
  | ["repeat", n, h] => match n.toNat?, parseHex h with
    | some n, some x => fin (rep s n x) | _, _ => (st, "bad-op")
  | ["slice", a, b] => match a.toNat?, b.toNat? with
    | some a, some b => if a ≤ b ∧ b ≤ s.length then fin (sliceSelf s a b) else (st, "bad-op") | _, _ => (st, "bad-op")
  | ["slicefrom", h, a, b] => match parseHex h, a.toNat?, b.toNat? with
    | some x, some a, some b => if a ≤ b ∧ b ≤ x.length then fin (sliceFrom s x a b) else (st, "bad-op")
    | _, _, _ => (st, "bad-op")
  | ["append", h] => match parseHex h with | some x => fin (append s x) | none => (st, "bad-op")
  | ["insert", p, h] => match p.toNat?, parseHex h with
    | some p, some x => if p ≤ s.length then fin (insert s p x) else (st, "bad-op") | _, _ => (st, "bad-op")
  | ["replace", n, r, start] => match parseHex n, parseHex r, start.toNat? with
    | some n, some r, some start =>
      if n.isEmpty ∨ start > s.length then (st, "bad-op") else
      match replace s n r start with
      | none => (st, "oob")
      | some (s', pos) => ({ s := s' }, (match pos with | some p => toString p | none => "nf") ++ " " ++ showStr s')
    | _, _, _ => (st, "bad-op")
  | ["replaceall", n, r] => match parseHex n, parseHex r with
    | some n, some r =>
      if n.isEmpty then (st, "bad-op") else
      match replaceAll n r (s.length + 1) s 0 0 with
      | none => (st, "oob")
      | some (s', c) => ({ s := s' }, toString c ++ " " ++ showStr s')
    | _, _ => (st, "bad-op")
  | ["trim", mode, flags, set] => match parseHex set with
    | some set =>
      if set.contains 0 then (st, "bad-op") else
      let (l, r) := flagsOf flags
      if mode == "a" then fin (trimAscii s set l r) else fin (trimUtf8 s set l r)
    | none => (st, "bad-op")
  | ["cpfind", want, set, start] => match parseHex set, start.toNat? with
    | some set, some start =>
      if set.contains 0 ∨ start > s.length then (st, "bad-op") else
      (st, match findFirstCp set (want == "of") (s.length + 1) (Gpc.Str.bytes s) start with
        | some i => toString i | none => "nf")
    | _, _ => (st, "bad-op")
  | ["split", h, set] => match parseHex h, parseHex set with
    | some x, some set =>
      if set.contains 0 then (st, "bad-op") else
      let parts := split x set
      (st, s!"{parts.length} " ++ (if parts.isEmpty then "-" else ",".intercalate (parts.map fun p => if p.isEmpty then "" else toHex p)))
    | _, _ => (st, "bad-op")
  | ["join", sep, parts] => match parseHex sep, splitHexList parts with
    | some sep, some parts => if sep.contains 0 then (st, "bad-op") else fin (join s parts sep)
    | _, _ => (st, "bad-op")
  -- fixed-buffer variants: `cap` = size of the destination buffer, `h` = its initial bytes
  | ["bslice", cap, h, a, b] => match cap.toNat?, parseHex h, a.toNat?, b.toNat? with
    | some cap, some x, some a, some b => (st, showBuf (bSliceSelf (x ++ List.replicate (cap - x.length) 0) a b))
    | _, _, _, _ => (st, "bad-op")
  | ["bslicefrom", cap, src, a, b] => match cap.toNat?, parseHex src, a.toNat?, b.toNat? with
    | some cap, some src, some a, some b => (st, showBuf (bSliceFrom (List.replicate cap 0) src a b))
    | _, _, _, _ => (st, "bad-op")
  | ["brepeat", cap, n, m] => match cap.toNat?, n.toNat?, parseHex m with
    | some cap, some n, some m => (st, showBuf (bRepeat (List.replicate cap 0) n m))
    | _, _, _ => (st, "bad-op")
  | ["bappend", cap, h, src] => match cap.toNat?, parseHex h, parseHex src with
    | some cap, some x, some src => (st, showBuf (bAppend (x ++ List.replicate (cap - x.length) 0) x.length src))
    | _, _, _ => (st, "bad-op")
  | ["binsert", cap, h, pos, src] => match cap.toNat?, parseHex h, pos.toNat?, parseHex src with
    | some cap, some x, some pos, some src => (st, showBuf (bInsert (x ++ List.replicate (cap - x.length) 0) x.length pos src))
    | _, _, _, _ => (st, "bad-op")
  | ["breplacerange", cap, h, a, b, r] => match cap.toNat?, parseHex h, a.toNat?, b.toNat?, parseHex r with
    | some cap, some x, some a, some b, some r => (st, showBuf (bReplaceRange (x ++ List.replicate (cap - x.length) 0) x.length a b r))
    | _, _, _, _, _ => (st, "bad-op")
  | ["breplace", cap, h, n, r, start] => match cap.toNat?, parseHex h, parseHex n, parseHex r, start.toNat? with
    | some cap, some x, some n, some r, some start =>
      if n.isEmpty then (st, "bad-op") else
      (st, match bReplace (x ++ List.replicate (cap - x.length) 0) x.length n r start with
        | none => "oob" | some none => "nf"
        | some (some (b, l, pos)) => s!"{pos} " ++ showBuf (some (b, l)))
    | _, _, _, _, _ => (st, "bad-op")
  | ["breplaceall", cap, h, n, r] => match cap.toNat?, parseHex h, parseHex n, parseHex r with
    | some cap, some x, some n, some r =>
      if n.isEmpty then (st, "bad-op") else
      (st, match bReplaceAll n r (x.length + 1) (x ++ List.replicate (cap - x.length) 0) x.length 0 0 with
        | none => "oob" | some (b, l, c) => s!"{c} " ++ showBuf (some (b, l)))
    | _, _, _, _ => (st, "bad-op")
  | ["btrim", h, flags, set] => match parseHex h, parseHex set with
    | some x, some set =>
      if set.contains 0 then (st, "bad-op") else
      let (l, r) := flagsOf flags
      (st, showBuf (bTrim x x.length set l r))
    | _, _ => (st, "bad-op")
  | ["delete"] => ({}, "ok")
  | ["end"] => ({}, "end")
  | _ => (st, "bad-op")

end Gpc.Driver
