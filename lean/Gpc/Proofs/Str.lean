import Gpc.Model.Str
import Gpc.Proofs.Array
import Gpc.Proofs.Search
/-! Helper lemmas for C04: list identities behind the buffer edits -/
namespace Gpc.Str
open Gpc.Arr (memmove memcpyIn np2 Kind memmove_some memmove_length memcpyIn_some memcpyIn_length np2_gt)

theorem replace_range_bytes (D repl : List UInt8) (S E L : Nat) (hS : S ≤ E) (hE : E ≤ L)
    (hD : L ≤ D.length) (hD2 : S + repl.length + (L - E) ≤ D.length) :
    ((D.take (S + repl.length) ++ (D.drop E).take (L - E) ++ D.drop (S + repl.length + (L - E))).take S ++ repl ++
      (D.take (S + repl.length) ++ (D.drop E).take (L - E) ++ D.drop (S + repl.length + (L - E))).drop (S + repl.length)).take
        (L + repl.length - (E - S))
      = (D.take L).take S ++ repl ++ (D.take L).drop E := by
  apply List.ext_getElem?
  intro i
  simp only [List.getElem?_take, List.getElem?_append, List.length_take, List.length_append,
    List.length_drop, List.getElem?_drop]
  grind

theorem slice_self_bytes (D : List UInt8) (S E : Nat) (hS : S ≤ E) (hE : E ≤ D.length) :
    (D.take 0 ++ (D.drop S).take (E - S) ++ D.drop (0 + (E - S))).take (E - S) = (D.drop S).take (E - S) := by
  apply List.ext_getElem?
  intro i
  simp only [List.getElem?_take, List.getElem?_append, List.length_take, List.length_append,
    List.length_drop, List.getElem?_drop]
  grind

theorem write_at_zero (D src : List UInt8) (h : src.length ≤ D.length) :
    (D.take 0 ++ src ++ D.drop (0 + src.length)).take src.length = src := by
  simp

theorem append_bytes (D src : List UInt8) (L : Nat) (h : L + src.length ≤ D.length) :
    (D.take L ++ src ++ D.drop (L + src.length)).take (L + src.length) = D.take L ++ src := by
  rw [List.take_append_of_le_length (by simp only [List.length_append, List.length_take]; omega)]
  rw [List.take_of_length_le (by simp only [List.length_append, List.length_take]; omega)]

theorem flatten_replicate_length (n : Nat) (m : List UInt8) : (List.replicate n m).flatten.length = n * m.length := by
  induction n with
  | zero => simp
  | succ k ih => simp [List.replicate_succ, ih, Nat.succ_mul]; omega

end Gpc.Str
